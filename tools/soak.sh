#!/bin/sh
# Background soak: many seeds x all properties, thorough-ish run counts.
# usage: tools/soak.sh [first_seed] [n_seeds] [workers] [scale]
# Replay files of anything reported are echoed into the output (one line of
# JSON each), because the snapshot a background run works in is thrown away.
HERE="$(cd "$(dirname "$0")/.." && pwd)"
FIRST=${1:-100}; N=${2:-10}; W=${3:-8}; SCALE=${4:-4}
cd "$HERE"
s=$FIRST
while [ $s -lt $((FIRST+N)) ]; do
  for P in C01 C03 C04 C06 C08 C09 C10 C11 C12 C13 C14 C15 C17 C18; do
    Q=$(/venv/bin/python -B -c "
import sys; sys.path.insert(0,'$HERE')
from sim import registry
print(registry.machine('$P').TIERS['$P']['quick']['runs']*$SCALE)")
    VERIF_SEED=$s ./check $P --no-evidence --workers $W --runs $Q --wall-cap 1500 2>&1 | grep -E "VIOLATION|HARNESS|signature|^C[0-9]+:" | sed "s/^/seed=$s /"
    for f in replays/$P-$s-*.json; do
      [ -f "$f" ] || continue
      /venv/bin/python -B -c "import json,sys; sys.stdout.write('seed=$s REPLAY-JSON $f ' + json.dumps(json.load(open('$f'))) + '\n')"
      rm -f "$f"
    done
  done
  s=$((s+1))
done
