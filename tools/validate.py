#!/usr/bin/env python3
"""Validates MANIFEST.json and every evidence file against the schemas
(python3-vt has jsonschema)."""
import glob
import json
import sys
import jsonschema

bad = 0
m = json.load(open('/verif/MANIFEST.json'))
jsonschema.validate(m, json.load(open('/root/.vp/MANIFEST.schema.json')))
props = [json.loads(l)['id'] for l in open('/verif/properties.jsonl')]
claimed = [c['property_id'] for c in m['checks']]
na = [n['property_id'] for n in m.get('not_applicable', [])]
assert sorted(claimed + na) == sorted(props), (claimed, na)
print('MANIFEST ok: %d claimed, %d not applicable' % (len(claimed), len(na)))
es = json.load(open('/root/.vp/EVIDENCE.schema.json'))
for f in sorted(glob.glob('/verif/evidence/*.json')):
    try:
        jsonschema.validate(json.load(open(f)), es)
        print('evidence ok:', f)
    except Exception as e:
        bad += 1
        print('EVIDENCE INVALID:', f, str(e)[:300])
sys.exit(1 if bad else 0)
