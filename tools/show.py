#!/usr/bin/env python3
"""Print a replay/plan file compactly and (with -x) execute it, showing
events and violations.  usage: tools/show.py [-x] FILE"""
import json, os, sys
sys.dont_write_bytecode = True
HERE = os.path.dirname(os.path.dirname(os.path.abspath(__file__)))
sys.path.insert(0, HERE)
sys.path.insert(0, os.environ.get('TDDA_REPO', '/repo'))
args = [a for a in sys.argv[1:] if not a.startswith('-')]
p = json.load(open(args[0]))
print('property', p['property'], 'run', p.get('run'), 'expect', p.get('expect', {}).get('signature'))
print('config', json.dumps(p.get('config'), ensure_ascii=False)[:3000])
for op in p['ops']:
    print('  op', json.dumps(op, ensure_ascii=False)[:1500])
if '-x' in sys.argv:
    from sim import worker
    res = worker.execute_plan(p)
    for e in res['events']:
        print('  ev', json.dumps(e, ensure_ascii=False, default=repr)[:2000])
    for v in res['violations']:
        print('VIOLATION', v['signature'])
        print(v['detail'][:3000])
