#!/usr/bin/env python3
"""List replay files with signature; with a substring argument show the
first matching replay's detail and plan.  usage: tools/sigs.py [substr]"""
import glob, json, sys
files = sorted(glob.glob('/verif/replays/*.json'))
want = sys.argv[1] if len(sys.argv) > 1 else None
for f in files:
    p = json.load(open(f))
    sig = p.get('expect', {}).get('signature', '')
    if want is None:
        print(f, sig)
    elif want in sig:
        print('===', f, sig)
        print(p['expect'].get('detail', '')[:int(sys.argv[2]) if len(sys.argv) > 2 else 1500])
        for op in p['ops']:
            print('  op', json.dumps(op, ensure_ascii=False)[:700])
        print('  config', json.dumps(p.get('config'), ensure_ascii=False)[:900])
        break
