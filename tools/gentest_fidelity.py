#!/usr/bin/env python3
"""
Stub fidelity for M-GEN: SimPopen against the real /bin/sh.

For N seeded command programs (restricted to output without simulated
identity strings or date-like tokens, since the real run uses the real clock
and host), the program is compiled to a shell command (cat of payload files
to stdout / stderr / output paths, exit n), gentest is run for real in a
fresh directory by a real Python subprocess, and the generated script is run
by another one.  Observations compared with the stubbed execution of the
same plan in the simulator: generation outcome, the set of generated tests,
and whether the fresh script passes.
usage: tools/gentest_fidelity.py [-n N] [--seed S]
"""
import argparse
import json
import os
import re
import shlex
import shutil
import subprocess
import sys
import tempfile

HERE = os.path.dirname(os.path.dirname(os.path.abspath(__file__)))
REPO = os.environ.get('TDDA_REPO', '/repo')
sys.dont_write_bytecode = True
sys.path.insert(0, HERE)
sys.path.insert(0, REPO)

from sim import rng as simrng           # noqa: E402
from sim import worker                  # noqa: E402
from machines import gentest as mg      # noqa: E402


def plain(plan):
    prog = plan['config']['programs']['cmd_x']
    text = ''.join(e.get('text', '') for e in prog['effects'])
    ident = mg.ident_strings(plan['config'])
    if any(v and v in text for v in ident.values()):
        return False
    if re.search(r'\d{1,4}[/\-\.]\d{1,2}[/\-\.]\d{1,4}', text):
        return False
    if re.search(r'(jan|feb|mar|apr|may|jun|jul|aug|sep|oct|nov|dec)',
                 text, re.I):
        return False
    if any(e['t'] == 'write' and e['path'].startswith('$TMPDIR')
           for e in prog['effects']):
        return False
    return not plan['config'].get('bystanders')


def compile_sh(prog, payload_dir):
    parts = []
    for k, e in enumerate(prog['effects']):
        if e['t'] in ('out', 'err', 'write'):
            p = os.path.join(payload_dir, 'p%d' % k)
            with open(p, 'wb') as f:
                f.write(bytes.fromhex(e['hex']) if 'hex' in e
                        else e['text'].encode('utf-8'))
        if e['t'] == 'out':
            parts.append('cat %s' % shlex.quote(p))
        elif e['t'] == 'err':
            parts.append('cat %s >&2' % shlex.quote(p))
        elif e['t'] == 'write':
            d = os.path.dirname(e['path'])
            if d:
                parts.append('mkdir -p %s' % shlex.quote(d))
            parts.append('cat %s > %s' % (shlex.quote(p),
                                          shlex.quote(e['path'])))
        elif e['t'] == 'exit':
            parts.append('exit %d' % e['code'])
    return '; '.join(parts)


def main():
    ap = argparse.ArgumentParser()
    ap.add_argument('-n', type=int, default=30)
    ap.add_argument('--seed', type=int, default=simrng.DEFAULT_VERIF_SEED)
    a = ap.parse_args()
    done = bad = 0
    run = 0
    while done < a.n and run < a.n * 40:
        run += 1
        plan = worker.make_plan('C11', a.seed, 10 ** 6 + run, 'quick')
        if not plain(plan):
            continue
        plan['ops'] = plan['ops'][:2]       # gentest + run_script
        g = plan['ops'][0]
        g.pop('clock_during', None)
        if g['script'].startswith('ABS:') or g['script'] == '-':
            g['script'] = 'test_x.py'
        # stubbed execution
        res = worker.execute_plan(json.loads(json.dumps(plan)))
        ev = {e['op']: e for e in res['events']}
        stub_gen = ev['gentest']['outcome']
        stub_tests = sorted(k for k, v in ev.get('run_script', {}).get(
            'results', []))
        stub_pass = bool(stub_tests) and all(
            v == 'ok' for k, v in ev['run_script']['results'])
        # real execution
        base = tempfile.mkdtemp(prefix='gtfid.', dir='/dev/shm'
                                if os.path.isdir('/dev/shm') else None)
        try:
            cwd = os.path.join(base, 'cwd')
            pay = os.path.join(base, 'payload')
            os.makedirs(cwd)
            os.makedirs(pay)
            cmd = compile_sh(plan['config']['programs']['cmd_x'], pay)
            code = (
                "import sys; sys.path.insert(0, %r)\n"
                "from tdda.referencetest.gentest import gentest\n"
                "gentest(%r, %r, %r, iterations=%d, no_stdout=%r, "
                "no_stderr=%r, non_zero_exit=%r)\n"
                % (REPO, cmd, g['script'], g['reference_files'],
                   g['iterations'], g['no_stdout'], g['no_stderr'],
                   g['non_zero_exit']))
            env = dict(os.environ, PYTHONPATH=REPO, TDDA_FAIL_DIR=os.path.join(
                base, 'fail'))
            os.makedirs(env['TDDA_FAIL_DIR'])
            r1 = subprocess.run(['/venv/bin/python', '-B', '-c', code],
                                cwd=cwd, capture_output=True, text=True,
                                env=env, timeout=120)
            real_gen = 'ok' if r1.returncode == 0 else (
                'exit' if 'Traceback' not in r1.stderr else 'error')
            script = os.path.join(cwd, mg.os.path.basename(
                'test_x.py' if g['script'].startswith('test')
                else 'test_' + g['script']))
            if not script.endswith('.py'):
                script += '.py'
            real_tests, real_pass = [], False
            if real_gen == 'ok' and os.path.exists(script):
                r2 = subprocess.run(['/venv/bin/python', '-B', script, '-v'],
                                    cwd=cwd, capture_output=True, text=True,
                                    env=env, timeout=120)
                real_tests = sorted(set(re.findall(r'^(test_\w+) \(',
                                                   r2.stderr, re.M)))
                real_pass = r2.returncode == 0 and bool(real_tests)
            done += 1
            if (stub_gen, stub_tests, stub_pass) != (real_gen, real_tests,
                                                     real_pass):
                bad += 1
                print('plan %d disagrees:\n  stub: %r %r pass=%r\n  real: '
                      '%r %r pass=%r' % (run, stub_gen, stub_tests,
                                         stub_pass, real_gen, real_tests,
                                         real_pass))
                print('  command:', cmd[:300])
                print('  real stderr:', (r1.stderr or '')[-400:])
        finally:
            shutil.rmtree(base, ignore_errors=True)
    print('gentest fidelity: %d plain-output plans executed with SimPopen '
          'and with /bin/sh, %d disagreement(s)' % (done, bad))
    return 1 if bad else 0


if __name__ == '__main__':
    sys.exit(main())
