#!/usr/bin/env python3
"""
Determinism self-test of the simulator (DESIGN.md 7).

For each property given: N run seeds are executed
  A  with 16 workers,
  B  with 3 workers (different batching => different predecessors per run),
  C  second half only (no first half before it in the same interpreters),
  D  every run again in fresh worker pools under the two *other*
     PYTHONHASHSEED values,
and the per-run event-log digests are compared.  Any difference is a
determinism leak in the harness (or hash-order dependence in tdda, which for
C14 is a property violation and elsewhere must be explained).
usage: tools/determinism.py [-n N] PROP...
"""
import argparse
import os
import sys

HERE = os.path.dirname(os.path.dirname(os.path.abspath(__file__)))
sys.path.insert(0, HERE)
sys.dont_write_bytecode = True

from sim import runner, rng as simrng     # noqa: E402


def digests(c):
    return {r: rec['digest'] for r, rec in c.results.items()}


def main():
    ap = argparse.ArgumentParser()
    ap.add_argument('-n', type=int, default=300)
    ap.add_argument('--seed', type=int, default=simrng.DEFAULT_VERIF_SEED)
    ap.add_argument('props', nargs='+')
    a = ap.parse_args()
    bad = 0
    for prop in a.props:
        n = a.n
        A = runner.Campaign(prop, 'quick', a.seed, 16, n, 3000)
        A.run(xhash_every=1)
        B = runner.Campaign(prop, 'quick', a.seed, 3, n, 3000)
        B.run()
        C = runner.Campaign(prop, 'quick', a.seed, 16, n - n // 2, 3000,
                            first_run=n // 2)
        C.run()
        errs = A.harness_errors + B.harness_errors + C.harness_errors
        dA, dB, dC = digests(A), digests(B), digests(C)
        diffB = [r for r in dA if dB.get(r) != dA[r]]
        diffC = [r for r in dC if dA.get(r) != dC[r]]
        diffD = sorted({r for (r, s), rec in A.xhash.items()
                        if rec['digest'] != dA.get(r)})
        print('%s: %d runs; 16 vs 3 workers: %d differ; alone vs after '
              'others: %d differ; other hash seeds (%d executions): %d runs '
              'differ; harness errors: %d'
              % (prop, len(dA), len(diffB), len(diffC), len(A.xhash),
                 len(diffD), len(errs)))
        for name, d in (('workers', diffB), ('order', diffC),
                        ('hashseed', diffD)):
            if d:
                print('   %s: runs %s' % (name, d[:12]))
        for e in errs[:3]:
            print('   harness error:', str(e)[:500])
        if diffB or diffC or diffD or errs or len(dA) != n:
            bad += 1
    return 1 if bad else 0


if __name__ == '__main__':
    sys.exit(main())
