#!/usr/bin/env python3
"""Generates /verif/MANIFEST.json (single source: this file)."""
import json
import os
import sys

HERE = os.path.dirname(os.path.dirname(os.path.abspath(__file__)))

TECH = 'deterministic simulation with fault injection: '

# dimensions added after the sub-agent rounds (DESIGN.md 9 and 11)
EXTRA = {
    'C01': '; the caller keeps one constraints dictionary and passes it '
           'again; stale or foreign files at the detection output path; process default text encoding varied around verification',
    'C03': '; one Size object shared between calls; rexpy_streams on one '
           'list of lines (header skipping, output file of an earlier run); '
           'earlier calls that fail part-way and are retried; a flagged rexpy command before the judged one in the same process',
    'C13': '; tag pairs over one list object / one output file; a flagged rexpy command before the judged one in the same process',
    'C14': '; Series and list-of-lines forms in the equivalence groups; '
           'seeded calls that raise; returned lists edited by the caller; a kept seeded extractor run again after the caller drew random numbers',
    'C18': '; input container edited by the caller after extraction; '
           're-extraction on the same extractor; results pruned with a catch-all before the figures are asked',
    'C04': '; simulated file timestamps; I/O errors while failure artefacts '
           'are written; option lists edited in place between assertions; an encoding named for an earlier comparison on the same object; actual files named relative to the current directory with a stale $PWD',
    'C10': '; I/O errors during regeneration followed by a retry; simulated '
           'file ages',
    'C15': '; temp directory created after construction / per test class; '
           'missing actual files; I/O errors on artefact writes; actual files named relative to the current directory with a stale $PWD',
    'C11': '; an earlier generation while the command was still unstable or '
           'aborted on a later run; a second command in the same process; $TMPDIR reached through a symlink',
    'C12': '; the same unstable-then-repeatable history; sibling output '
           'names; the test for a file is read off the generated script; outputs with normalised modification times',
    'C06': '; one constraints file rewritten between detections; removal of the stale output file failing (EBUSY); process default text encoding varied',
    'C09': '; the caller\'s dictionary re-serialised after verification; '
           'warnings escalated to errors; file names containing $NAME with NAME set',
    'C17': '; invocations cut short by an I/O error and run again; the table '
           'on standard input; alternative flag spellings; refused invocations run as under an interpreter started with -O (tdda re-imported compiled with optimize=1)',
    'C08': '; a second writer on its own connection to a shared database '
           'file (WAL / rollback journal); uncommitted writes; calls that '
           'fail part-way on the connection; the table re-created with other '
           'column types; local time zone with daylight saving and values in the skipped hour',
}

CHECKS = {
    'C03': {
        'technique': TECH + 'seeded search over rexpy call schedules, PRNG '
                     'draw sequences (real seeded stream / scripted uniform / '
                     'adversarial samples), Size knobs and corpora; oracle = '
                     'independent re matcher over all kept examples',
        'text': 'Seeded exploration. The sampled-attempt path, the retry loop '
                'and the group limits are driven with 1-40 string inputs by '
                'randomising Size knobs per run and by owning random.sample '
                'at the rexpy.random seam (uniform, adversarial and real '
                'seeded streams); several callers share memo and global '
                'PRNG. Every kept example of every call is re-matched with '
                'an independent matcher. A clean batch is evidence over the '
                'seeds explored, not a proof.',
        'note': 'Trusted: python re as the reference matcher; generator '
                'covers the character classes listed in gens/strings.py; '
                'pandas Series form excludes NUL characters (pandas '
                'hashtable artefact). posix/java dialects out of scope.',
        'design_ref': 'DESIGN.md 4.1',
    },
    'C13': {
        'technique': TECH + 'same machine as C03; each extract executed '
                     'untagged and tagged from one memo/PRNG snapshot with '
                     'the same scripted choice list; direct validity oracles',
        'text': 'Seeded exploration of validity/usefulness of every returned '
                'expression (compiles, anchored, matches >=1 example, no '
                'duplicates, count <= distinct examples, none for empty '
                'input) across sampling regimes, and tag/untagged equivalence '
                'under an identical replayed PRNG choice list - which only '
                'the simulator can arrange.',
        'note': 'Trusted: python re. Tag equivalence is compared on the '
                'kept examples of the call, not on all strings.',
        'design_ref': 'DESIGN.md 4.1',
    },
    'C14': {
        'technique': TECH + 'schedule exploration: target call first / after '
                     'a seeded prefix of other callers\' calls and PRNG '
                     'perturbations / repeated / permuted / as dict / with '
                     'repeats; PRNG state conservation; fresh interpreters '
                     'under three PYTHONHASHSEED values',
        'text': 'Seeded exploration over call schedules in one interpreter '
                '(shared memo, global PRNG) and across interpreters with '
                'different hash seeds. Equality of results is demanded per '
                'regime (no sampling: all variants; sampling+seed: same '
                'input any schedule, and global random state conserved; '
                'sampling without seed: abstain).',
        'note': 'Whether sampling occurred is observed at the randomness '
                'seam. Seeded order/form invariance under sampling is not '
                'demanded (abstention counted in evidence).',
        'design_ref': 'DESIGN.md 4.1',
    },
    'C18': {
        'technique': TECH + 'same machine as C03; coverage figures compared '
                     'with independent counts over the supplied multiset in '
                     'sampled and unsampled regimes',
        'text': 'Seeded exploration of the accounting identities (per '
                'expression counts, incremental order, sum = supplied, each '
                'example credited once, n_examples) with the sampling regime '
                'forced on small inputs, where the working set differs from '
                'the supplied set.',
        'note': 'Trusted: python re; runs with null examples abstain on '
                'n_examples.',
        'design_ref': 'DESIGN.md 4.1',
    },
    'C04': {
        'technique': TECH + 'write-reference -> storage fault (flipped char, '
                     'lost/duplicated line, torn write, lost file, appended '
                     'garbage, CRLF, BOM) -> check, through the three text '
                     'entry points; verdict vs. the M-text reference model',
        'text': 'Seeded exploration with fault injection on the stored '
                'reference/actual file between write and check. Fault-free '
                'cases decide "agreeing texts pass under every option '
                'subset"; faulted and near-miss cases decide "any difference '
                'not excused fails". The oracle is an independent executable '
                'statement of the comparison rule (models/textcmp.py) that '
                'abstains where the documented meaning is not unique.',
        'note': 'Trusted: models/textcmp.py (written from the statement and '
                'user docs); pattern family and token alphabets in '
                'gens/lines.py; abstentions are counted in evidence.',
        'design_ref': 'DESIGN.md 4.2',
    },
    'C10': {
        'technique': TECH + 'histories of assertions by several test classes '
                     'sharing the class-level regeneration table, argv / '
                     'pytest option spellings, I/O-error faults at write '
                     'sites of failing normal-mode assertions, lost '
                     'references; full snapshot audit of the reference store '
                     'around every assertion; M-regen table model',
        'text': 'Seeded exploration over call histories and fault placements. '
                'After every assertion (whatever its outcome, incl. injected '
                'ENOSPC/EACCES/EIO/short writes) the complete reference store '
                'is compared with its pre-op snapshot: unchanged when the '
                'model says normal mode, only the own reference written when '
                'regenerating, and the re-issued assertion must pass.',
        'note': 'Trusted: models/regen.py; positive argv obligation only for '
                'documented placements; DataFrame references limited to '
                'dtypes that round-trip parquet on this installation.',
        'design_ref': 'DESIGN.md 4.2',
    },
    'C15': {
        'technique': TECH + 'complete before/after filesystem audit plus '
                     'write-site log around every assertion, configured vs. '
                     'default temp dir, stale artefacts from earlier ops, '
                     'missing references; artefact contents vs. M-text',
        'text': 'Seeded exploration of failing and passing assertions with a '
                'whole-world audit (a unit test can assert one file exists; '
                'it cannot assert nothing else was written). Named files '
                'must exist, the raw actual must hold the actual, the '
                'post-processed pair must differ exactly at the model\'s '
                'unexcused positions, binary offsets/lengths exact.',
        'note': 'Trusted: models/textcmp.py; "exactly the actual content" '
                'read as line sequences modulo trailing empty lines; position '
                'check only when line counts agree and no removals/preprocess.',
        'design_ref': 'DESIGN.md 4.2',
    },
    'C11': {
        'technique': TECH + 'gentest run against a simulated peer process '
                     '(SimPopen command program) under a simulator-owned '
                     'clock, file change times, host/user/home/cwd/tmpdir; '
                     'clock steps and midnight between and inside iterations; '
                     'the generated script is imported and run in-process; '
                     'whole-directory audit',
        'text': 'Seeded exploration. "Whatever text the outputs contain" is '
                'only meaningful relative to clock and identity, which the '
                'simulator owns: date-like tokens are placed inside, at the '
                'edge of and outside the plausibility window around simulated '
                'now, identity strings occur inside ordinary words, clocks '
                'step while the command runs. Oracle: no crash, script '
                'exists and compiles, passes straight afterwards, nothing '
                'else in the directory changed.',
        'note': 'Stubs: shell/child process, clock, ctimes, identity (see '
                'components in evidence). Output streams are valid UTF-8; '
                'pre-existing files matched by the user\'s own explicit name '
                'or glob are kept out of the workload (user error).',
        'design_ref': 'DESIGN.md 4.3',
    },
    'C12': {
        'technique': TECH + 'history generate -> pass -> the simulated peer '
                     'changes behaviour in exactly one way (or the clock '
                     'jumps and nothing changes) -> re-run; M-excuse model '
                     'over simulated identity/time decides which lines must '
                     'be checked',
        'text': 'Seeded exploration over commands and single behaviour '
                'changes (one character / line on stdout, stderr or a text '
                'file, one byte of a binary file, a file no longer written, '
                'exit status). The named test must fail; with no change it '
                'must still pass after clock jumps of days to years.',
        'note': 'A change is demanded to be noticed only on lines without '
                'simulated identity strings or in-window dates (abstentions '
                'counted). Equal-tick ctimes are not injected (no '
                'ctime-based implementation can meet the statement there).',
        'design_ref': 'DESIGN.md 4.3',
    },
    'C01': {
        'technique': TECH + 'histories discover -> (write .tdda -> reload, '
                     'k cycles) -> verify / detect on shared frame objects '
                     'that another client mutates in between (in-place '
                     'detection, type repair); rex discovery through rexpy; '
                     'frame fingerprints decide when closure is owed',
        'text': 'Seeded exploration over frames of every recognised column '
                'type and over call histories on shared frame objects and '
                'real .tdda files. Closure (no exception, 0 failures, 0 '
                'failing records) is demanded whenever the frame is still '
                'the one discovery saw, for constraints used as dict, as a '
                'file, and after 2-4 write/load cycles, repair on and off.',
        'note': 'Per-dtype statistics are exercised by the workload only. '
                'Frames with pandas-3 str / nullable string columns carry no '
                'obligation (not in the recognised list). Wall clock not '
                'stubbed here (see components).',
        'design_ref': 'DESIGN.md 4.4',
    },
    'C06': {
        'technique': TECH + 'detect ops by two users on one shared frame and '
                     'one shared output path with stale files planted or '
                     'left by earlier ops; differential against verify on an '
                     'identical copy; per-record M-rec model; before/after '
                     'frame and path-state audit',
        'text': 'Seeded exploration with the stale-output fault and the '
                'shared-frame schedule (in-place columns of one user are '
                'original fields for the next). Verdict maps must equal '
                'plain verification, false flags must equal the model\'s '
                'violators, counts must partition the rows, the input frame '
                'must be untouched unless in_place, and the output file may '
                'exist afterwards only if a constraint failed.',
        'note': 'Trusted: models/records.py (abstains on type-mismatched '
                'bounds, inf/NaN bounds, bool under sign, float32 columns, '
                'integers beyond 2^53 under fuzzy precision, columns retyped '
                'by repair). Two known findings listed.',
        'design_ref': 'DESIGN.md 4.4',
    },
    'C09': {
        'technique': TECH + 'write/load cycles over real files (shorter over '
                     'longer content, shared paths), old creation stamps '
                     'planted so that re-stamping on load is observable, '
                     'verdicts via dict / path / reloaded object, noise '
                     'injection (unknown kinds, # keys, null values)',
        'text': 'Seeded exploration over discovered and hand-written '
                'constraint sets (every kind, precision dicts, date bounds '
                'with fractions, unicode, regexes with backslashes and '
                'quotes) and 1-4 write/load cycles: identical text, valid '
                'UTF-8 JSON without trailing whitespace, identical verdicts '
                'whichever way the constraints are supplied, ignorable '
                'entries ignored.',
        'note': 'Whole-text identity demanded when tddafile is passed on '
                'both sides, else on the fields section. One known finding '
                '(date-only bounds gain 00:00:00 on the first cycle).',
        'design_ref': 'DESIGN.md 4.4',
    },
    'C17': {
        'technique': TECH + 'the CLI run as a simulated process (argv, '
                     'stdin, stdout, exit status, cwd owned by the harness) '
                     'next to the library on the same files; the property\'s '
                     'own fault list (missing input, missing constraints, '
                     'unknown flag, contradictory flags) x {output path '
                     'absent, stale file present}',
        'text': 'Seeded exploration with fault injection at the process '
                'boundary. Normal invocations are compared differentially '
                'with the library on load_df(path) (constraints apart from '
                'creation metadata, pass/failure counts from stdout and the '
                'returned object, detection output file bytes / frames); '
                'faulted invocations must exit non-zero and must not create '
                'or rewrite an output file (audit of the whole cwd).',
        'note': 'CLI executed in-process through console.main_with_argv '
                '(exit status = SystemExit code, 1 for an escaping '
                'exception); tools/cli_fidelity.py replays a sample through '
                'a real subprocess. A stale output that a failed run never '
                'reached is counted, not failed.',
        'design_ref': 'DESIGN.md 4.4',
    },
    'C08': {
        'technique': TECH + 'history on an external stateful store (SQLite '
                     'through tdda\'s own connection with its REGEXP '
                     'callback): rows written before discovery (must be '
                     'absorbed) -> discover -> rogue single-row write '
                     'breaking exactly one discovered constraint -> verify',
        'text': 'Seeded exploration over tables (integer/real/text/varchar/'
                'boolean/datetime; quotes, backslashes, %, unicode, empty '
                'strings, all-null columns, empty tables) and over the '
                'position and kind of the rogue write in the history. '
                'Unchanged table: no error, 0 failures. After the rogue row: '
                'the targeted constraint must be reported failed.',
        'note': 'SQLite only; table names plain identifiers; column names '
                'without double quotes; other verdicts after a rogue write '
                'are not constrained.',
        'design_ref': 'DESIGN.md 4.5',
    },
}

NOT_BUILT = {}

NOT_APPLICABLE = {
    'C02': 'pure function of (frame, constraint set, epsilon, type_checking): '
           'no schedule, clock, fault, history or environment in the '
           'statement; deciding it is property-based testing of a semantics, '
           'not simulation (DESIGN.md 5)',
    'C05': 'equality of two frames under options is a pure function; file '
           'entry points only deserialise; a byte-level storage fault on '
           'parquet gives a reader error, not a cell difference '
           '(DESIGN.md 5)',
    'C07': 'tightness of discovered statistics is a pure function of the '
           'data at one instant (DESIGN.md 5)',
    'C16': 'CSVW format translation and typed CSV loading are pure functions '
           'of (file bytes, metadata); no state survives a call '
           '(DESIGN.md 5)',
    'C19': 'the set of executed tests is a pure function of (module, argv); '
           'the argv regeneration flags that do touch shared state are '
           'covered under C10 (DESIGN.md 5)',
}


def main():
    props = [json.loads(l)['id']
             for l in open(os.path.join(HERE, 'properties.jsonl'))]
    checks = []
    for pid in props:
        if pid not in CHECKS:
            continue
        c = CHECKS[pid]
        checks.append({
            'property_id': pid,
            'quick_cmd': './check %s --tier quick' % pid,
            'thorough_cmd': './check %s --tier thorough' % pid,
            'evidence_file': '/verif/evidence/%s.json' % pid,
            'replay_cmd_template': './check %s --replay {path}' % pid,
            'engine': 'tdda-dsim',
            'level_claimed': {'category': c.get('category', 'exploration'),
                              'text': c['text'],
                              'design_ref': c['design_ref']},
            'level_note': c['note'],
            'technique': c['technique'] + EXTRA.get(pid, ''),
        })
    na = []
    for pid in props:
        if pid in CHECKS:
            continue
        reason = NOT_APPLICABLE.get(pid) or NOT_BUILT.get(pid)
        assert reason, pid
        na.append({'property_id': pid, 'reason': reason})
    m = {
        'version': 1,
        'setup_cmd': '/venv/bin/python -B tools/setup_check.py',
        'hooks': {
            'guard': 'TDDA_TDDA_VERIF',
            'enable': 'none needed: every seam is a module attribute '
                      'monkeypatched by the simulator in the worker '
                      'interpreters (DESIGN.md 3.3, 3.9); /repo contains no '
                      'hook code',
            'baseline_off_cmd': '/venv/bin/python -B /verif/tools/baseline.py',
            'source_commits': [],
            'add_only': True,
        },
        'engines': [{
            'name': 'tdda-dsim',
            'path': '/verif/sim',
            'serves_properties': [c['property_id'] for c in checks],
            'kind_free_text': 'seeded plan generator + deterministic executor '
                              '(one plan = one replayable execution) over five '
                              'simulated machines, with fault injection, '
                              'reference-model oracles, ddmin minimisation and '
                              'fresh-interpreter replay confirmation',
        }],
        'checks': checks,
        'not_applicable': na,
        'notes': 'Checks import tdda from /repo\'s working tree (or '
                 '$TDDA_REPO) in worker interpreters; nothing is installed. '
                 'Known findings: /verif/KNOWN_FINDINGS.txt. Exit 2 = harness '
                 'error (never a pass).',
    }
    with open(os.path.join(HERE, 'MANIFEST.json'), 'w') as f:
        json.dump(m, f, indent=1)
        f.write('\n')


if __name__ == '__main__':
    sys.exit(main())
