#!/usr/bin/env python3
"""
Re-run every seeded change in /verif/seeded/ (and optionally /verif/mutants/)
against the quick check of its property, in scratch worktrees.
usage: tools/seeded_check.py [substring]
"""
import json, os, subprocess, sys
HERE = os.path.dirname(os.path.dirname(os.path.abspath(__file__)))
want = sys.argv[1] if len(sys.argv) > 1 else ''
missed = 0
for name in sorted(os.listdir(os.path.join(HERE, 'seeded'))):
    if want not in name:
        continue
    d = os.path.join(HERE, 'seeded', name)
    meta = json.load(open(os.path.join(d, 'meta.json')))
    r = subprocess.run([sys.executable, os.path.join(HERE, 'tools',
                                                     'try_mutant.py'),
                        os.path.join(d, 'patch.diff'), '--props',
                        meta.get('detected_by', meta['property'])],
                       capture_output=True, text=True)
    sigs = [l.strip() for l in r.stdout.splitlines()
            if l.strip().startswith('signature:')]
    ok = r.returncode == 0
    print('%-58s %s  %s' % (name, 'caught' if ok else 'MISSED',
                            sigs[0][:110] if sigs else ''), flush=True)
    if not ok:
        missed += 1
        print(r.stdout[-800:])
sys.exit(1 if missed else 0)
