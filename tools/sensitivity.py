#!/usr/bin/env python3
"""
Sensitivity self-test (DESIGN.md 7): every patch in /verif/mutants must be
reported by the quick check of the property it breaks (and the
behaviour-preserving one by none).  Uses tools/try_mutant.py (scratch
worktrees, /repo untouched).   usage: tools/sensitivity.py [name-substring]
"""
import json, os, subprocess, sys
HERE = os.path.dirname(os.path.dirname(os.path.abspath(__file__)))
idx = json.load(open(os.path.join(HERE, 'mutants', 'index.json')))
want = sys.argv[1] if len(sys.argv) > 1 else ''
ALL = 'C01,C03,C04,C06,C08,C09,C10,C11,C12,C13,C14,C15,C17,C18'
bad = 0
for m in idx:
    if want not in m['name']:
        continue
    props = m['property'] or ALL
    r = subprocess.run([sys.executable, os.path.join(HERE, 'tools',
                                                     'try_mutant.py'),
                        os.path.join(HERE, 'mutants', m['name'] + '.diff'),
                        '--props', props], capture_output=True, text=True)
    det = [l for l in r.stdout.splitlines() if l.startswith('DETECTED')]
    sigs = [l.strip() for l in r.stdout.splitlines()
            if l.strip().startswith('signature:')]
    ok = (r.returncode == 0) if m['property'] else (r.returncode == 1)
    print('%-45s %-4s %s  %s' % (m['name'], m['property'] or '-',
                                 'ok ' if ok else 'MISSED' if m['property']
                                 else 'FALSE-ALARM', det[0] if det else ''))
    for s in sigs[:2]:
        print('      ' + s[:160])
    if not ok:
        bad += 1
        print(r.stdout[-1500:])
sys.exit(1 if bad else 0)
