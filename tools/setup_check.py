#!/usr/bin/env python3
"""setup_cmd: nothing is built or installed; verify that the interpreter can
import what the machines need, with tdda coming from /repo's working tree."""
import compileall
import os
import sys

sys.dont_write_bytecode = True
REPO = os.environ.get('TDDA_REPO', '/repo')
sys.path.insert(0, REPO)
HERE = os.path.dirname(os.path.dirname(os.path.abspath(__file__)))
sys.path.insert(0, HERE)

import pandas, pyarrow, numpy, chardet   # noqa
import tdda                              # noqa
from tdda.rexpy import rexpy             # noqa
from tdda.referencetest import gentest   # noqa
from tdda.constraints import discover_df, verify_df, detect_df   # noqa

assert os.path.realpath(tdda.__file__).startswith(os.path.realpath(REPO)), \
    tdda.__file__
ok = True
for d in ('sim', 'machines', 'models', 'gens', 'tools'):
    p = os.path.join(HERE, d)
    for f in sorted(os.listdir(p)):
        if f.endswith('.py'):
            with open(os.path.join(p, f), encoding='utf-8') as fh:
                try:
                    compile(fh.read(), f, 'exec')
                except SyntaxError as e:
                    ok = False
                    print('syntax error', d, f, e)
os.makedirs(os.path.join(HERE, 'evidence'), exist_ok=True)
os.makedirs(os.path.join(HERE, 'replays'), exist_ok=True)
print('setup ok: pandas %s pyarrow %s numpy %s; tdda from %s'
      % (pandas.__version__, pyarrow.__version__, numpy.__version__,
         os.path.dirname(tdda.__file__)))
sys.exit(0 if ok else 1)
