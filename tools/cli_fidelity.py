#!/usr/bin/env python3
"""
Stub fidelity for C17: the in-process CLI (console.main_with_argv with the
harness owning argv/stdin/stdout/exit status) against a real subprocess
`python -c "from tdda.constraints.console import main; main()" ...`.

For N seeded C17 plans every CLI op is executed both ways in two copies of
the working directory; exit status, the set of files afterwards, their
contents (creation metadata of .tdda files scrubbed) and the verify summary
counts on stdout must agree.   usage: tools/cli_fidelity.py [-n N] [--seed S]
"""
import argparse
import io
import json
import os
import re
import shutil
import subprocess
import sys
import tempfile

HERE = os.path.dirname(os.path.dirname(os.path.abspath(__file__)))
REPO = os.environ.get('TDDA_REPO', '/repo')
sys.dont_write_bytecode = True
sys.path.insert(0, HERE)
sys.path.insert(0, REPO)

from sim import rng as simrng                   # noqa: E402
from gens import frames as gf                   # noqa: E402
from machines import constraints_cli as cc      # noqa: E402


def scrub(b, path):
    if path.endswith('.tdda'):
        t = b.decode('utf-8', 'replace')
        t = re.sub(r'"(local_time|utc_time|host|user|source|tddafile|'
                   r'dataset)": "[^"]*"', r'"\1": "X"', t)
        return t.encode('utf-8')
    return b


def listing(d):
    out = {}
    for root, _, files in os.walk(d):
        for f in files:
            p = os.path.join(root, f)
            rel = os.path.relpath(p, d)
            if rel.endswith('.parquet'):
                import pandas as pd
                try:
                    out[rel] = pd.read_parquet(p).to_csv()
                    continue
                except Exception:
                    pass        # a planted stale file: compare the bytes
            if True:
                with open(p, 'rb') as fh:
                    out[rel] = scrub(fh.read(), rel)
    return out


def real_cli(argv, cwd, stdin_text):
    code = ("import sys; sys.path.insert(0, %r); "
            "from tdda.constraints.console import main; main()" % REPO)
    r = subprocess.run(['/venv/bin/python', '-B', '-c', code] + list(argv),
                       cwd=cwd, input=stdin_text or '', capture_output=True,
                       text=True, timeout=120)
    return r.returncode, r.stdout, r.stderr


class Ctx:
    pass


def main():
    ap = argparse.ArgumentParser()
    ap.add_argument('-n', type=int, default=40)
    ap.add_argument('--seed', type=int, default=simrng.DEFAULT_VERIF_SEED)
    a = ap.parse_args()
    import collections
    bad = 0
    ncli = 0
    for run in range(a.n):
        r = simrng.Rng(simrng.derive(a.seed, 'cli-fidelity', run))
        plan = cc.gen_c17(r, 'quick')
        base = tempfile.mkdtemp(prefix='clifid.', dir='/dev/shm'
                                if os.path.isdir('/dev/shm') else None)
        A, B = os.path.join(base, 'A'), os.path.join(base, 'B')
        os.makedirs(A)
        os.makedirs(B)
        try:
            df = gf.build_frame(plan['config']['frames'][0])
            for op in plan['ops']:
                if op['op'] == 'write_table':
                    for d in (A, B):
                        p = os.path.join(d, op['path'])
                        if p.endswith('.parquet'):
                            df.to_parquet(p, index=False)
                        else:
                            df.to_csv(p, index=False)
                elif op['op'] == 'write_cs':
                    for d in (A, B):
                        with io.open(os.path.join(d, op['path']), 'w',
                                     encoding='utf-8') as f:
                            f.write(json.dumps(op['cs'], indent=4,
                                               ensure_ascii=False) + '\n')
                elif op['op'] == 'stale_output':
                    for d in (A, B):
                        with io.open(os.path.join(d, op['path_cwd']), 'w',
                                     encoding='utf-8') as f:
                            f.write(op['junk'])
                elif op['op'] == 'cli':
                    ncli += 1
                    stdin_text = None
                    if op.get('stdin'):
                        with io.open(os.path.join(A, op['input']),
                                     encoding='utf-8') as f:
                            stdin_text = f.read()
                    cwd = os.getcwd()
                    os.chdir(A)
                    try:
                        ctx = Ctx()
                        st1, exc, ret, out1, err1 = cc.run_cli(
                            ctx, op['argv'], stdin_text)
                    finally:
                        os.chdir(cwd)
                    st2, out2, err2 = real_cli(op['argv'], B, stdin_text)
                    la, lb = listing(A), listing(B)
                    cnt = lambda o: re.findall(
                        r'(?:Constraints|Records) (?:passing|failing): \d+',
                        o)
                    problems = []
                    if (st1 != 0) != (st2 != 0):
                        problems.append('exit status %r vs %r' % (st1, st2))
                    if sorted(la) != sorted(lb):
                        problems.append('files %r vs %r' % (sorted(la),
                                                            sorted(lb)))
                    else:
                        for k in la:
                            if la[k] != lb[k]:
                                problems.append('content of %s differs' % k)
                    if cnt(out1) != cnt(out2):
                        problems.append('summary %r vs %r' % (cnt(out1),
                                                              cnt(out2)))
                    if problems:
                        bad += 1
                        print('run %d: tdda %s: %s' % (run, ' '.join(
                            op['argv']), '; '.join(problems)))
                        print('   stub stderr:', err1[-300:].strip())
                        print('   real stderr:', err2[-300:].strip())
        finally:
            shutil.rmtree(base, ignore_errors=True)
    print('cli fidelity: %d plans, %d CLI invocations executed both ways, '
          '%d disagreement(s)' % (a.n, ncli, bad))
    return 1 if bad else 0


if __name__ == '__main__':
    sys.exit(main())
