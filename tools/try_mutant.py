#!/usr/bin/env python3
"""
Evaluate a behaviour-changing patch ("mutant") against the checks.

  tools/try_mutant.py PATCH [--props C03,C14] [--demo demo.py] [--suite]
                      [--tier quick] [--runs N] [--seed S]

A scratch git worktree of /repo's HEAD is created under /dev/shm, the patch
is applied there, optionally the pinned test suite and the demonstration are
run in it, then the named checks are pointed at it with TDDA_REPO.  The
worktree and its build output are removed afterwards.  /repo is not touched.
Exit status 0 iff at least one named check reported a VIOLATION.
"""
import argparse
import json
import os
import shutil
import subprocess
import sys
import tempfile
import xml.etree.ElementTree as ET

HERE = os.path.dirname(os.path.dirname(os.path.abspath(__file__)))
PY = '/venv/bin/python'


def sh(cmd, **kw):
    return subprocess.run(cmd, shell=isinstance(cmd, str),
                          capture_output=True, text=True, **kw)


def suite(tree):
    b = json.load(open('/root/.vp/BASELINE.json'))
    with tempfile.TemporaryDirectory() as d:
        out = os.path.join(d, 'j.xml')
        cmd = b['cmd'].replace('<file>', out).replace('cd /repo',
                                                      'cd %s' % tree)
        sh(cmd)
        passed = set()
        for tc in ET.parse(out).getroot().iter('testcase'):
            if not any(ch.tag in ('failure', 'error', 'skipped')
                       for ch in tc):
                passed.add('%s::%s' % (tc.get('classname'), tc.get('name')))
    want = set(b['stable_pass'])
    return len(want & passed), sorted(want - passed)


def main():
    ap = argparse.ArgumentParser()
    ap.add_argument('patch')
    ap.add_argument('--props', default='')
    ap.add_argument('--demo', default=None)
    ap.add_argument('--suite', action='store_true')
    ap.add_argument('--tier', default='quick')
    ap.add_argument('--runs', type=int, default=None)
    ap.add_argument('--seed', type=int, default=None)
    ap.add_argument('--keep-replays', action='store_true')
    a = ap.parse_args()
    patch = os.path.abspath(a.patch)
    root = '/dev/shm' if os.path.isdir('/dev/shm') else tempfile.gettempdir()
    tree = os.path.join(root, 'tdda-mutant.%d' % os.getpid())
    r = sh(['git', '-C', '/repo', 'worktree', 'add', '--detach', tree,
            'HEAD'])
    if r.returncode:
        print('cannot create worktree:', r.stderr)
        return 2
    detected = []
    try:
        r = sh(['git', '-C', tree, 'apply', patch])
        if r.returncode:
            print('patch does not apply:', r.stderr)
            return 2
        print('patch applied to scratch tree %s' % tree)
        if a.demo:
            demo = os.path.abspath(a.demo)
            with tempfile.TemporaryDirectory() as d:
                r1 = sh([PY, '-B', demo, tree], cwd=d)
                r0 = sh([PY, '-B', demo, '/repo'], cwd=d)
            print('demo with change: exit %d; without: exit %d'
                  % (r1.returncode, r0.returncode))
            if r1.returncode == 0 or r0.returncode != 0:
                print('  (demo does not discriminate)')
                print((r1.stdout + r1.stderr)[-600:])
        if a.suite:
            n, missing = suite(tree)
            print('pinned suite with change: %d/218 stable tests pass%s'
                  % (n, '' if not missing else '; NOT passing: %r'
                     % missing[:5]))
        for prop in [p for p in a.props.split(',') if p]:
            env = dict(os.environ, TDDA_REPO=tree)
            if a.seed is not None:
                env['VERIF_SEED'] = str(a.seed)
            cmd = [os.path.join(HERE, 'check'), prop, '--tier', a.tier,
                   '--no-evidence']
            if a.runs:
                cmd += ['--runs', str(a.runs)]
            r = subprocess.run(cmd, env=env, capture_output=True, text=True)
            lines = r.stdout.splitlines()
            vio = [l for l in lines if l.startswith('VIOLATION')]
            sigs = [l.strip() for l in lines if l.strip().startswith(
                'signature:')]
            print('%s: exit %d, %d VIOLATION line(s)' % (prop, r.returncode,
                                                         len(vio)))
            for s in sigs[:6]:
                print('    ' + s[:200])
            if r.returncode == 2:
                print('\n'.join(l for l in lines if 'HARNESS' in l)[:1500])
            if vio:
                detected.append(prop)
            if not a.keep_replays:
                for l in vio:
                    p = l.split('replay=')[-1].strip()
                    if os.path.exists(p):
                        os.remove(p)
    finally:
        sh(['git', '-C', '/repo', 'worktree', 'remove', '--force', tree])
        shutil.rmtree(tree, ignore_errors=True)
    print('DETECTED by: %s' % (','.join(detected) or 'none'))
    return 0 if detected else 1


if __name__ == '__main__':
    sys.exit(main())
