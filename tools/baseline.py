#!/usr/bin/env python3
"""
Runs the repository's pinned test suite (command from /root/.vp/BASELINE.json)
with the verification guard OFF and checks that exactly the stable-pass set
passes.  Exit 0 iff every stable_pass test passed.
"""
import json
import os
import subprocess
import sys
import tempfile
import xml.etree.ElementTree as ET

BASE = '/root/.vp/BASELINE.json'


def main():
    with open(BASE) as f:
        b = json.load(f)
    env = dict(os.environ)
    env.pop('TDDA_TDDA_VERIF', None)
    with tempfile.TemporaryDirectory() as d:
        out = os.path.join(d, 'junit.xml')
        cmd = b['cmd'].replace('<file>', out)
        subprocess.run(cmd, shell=True, env=env, stdout=subprocess.DEVNULL,
                       stderr=subprocess.DEVNULL)
        passed = set()
        for tc in ET.parse(out).getroot().iter('testcase'):
            if not any(ch.tag in ('failure', 'error', 'skipped')
                       for ch in tc):
                passed.add('%s::%s' % (tc.get('classname'), tc.get('name')))
    want = set(b['stable_pass'])
    missing = sorted(want - passed)
    print('stable_pass: %d, passed now: %d, missing: %d'
          % (len(want), len(want & passed), len(missing)))
    for m in missing:
        print('  NOT PASSING: ' + m)
    return 1 if missing else 0


if __name__ == '__main__':
    sys.exit(main())
