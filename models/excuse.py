"""
M-excuse: which output lines a generated test may legitimately not check
(C12).  A line is MUST-CHECK unless it contains one of the simulated
identity strings (host, ip, user, cwd, home, tmpdir) or any date-like string
that, in *any* reading, is a calendar date within [start - 2 d, stop + 2 d]
of simulated time, or any such date string found anywhere else in the same
output (gentest excludes by substring).  Deliberately wider than the code's
own window so that edge cases abstain.
"""

import datetime
import re

MONTHS = {'jan': 1, 'feb': 2, 'mar': 3, 'apr': 4, 'may': 5, 'jun': 6,
          'jul': 7, 'aug': 8, 'sep': 9, 'oct': 10, 'nov': 11, 'dec': 12}
MONTH = (r'(jan|january|feb|february|mar|march|apr|april|may|jun|june|'
         r'jul|july|aug|august|sep|sept|september|oct|october|nov|'
         r'november|dec|december)')
NUM = re.compile(r'(?=(\d{1,4})[/\-\.](\d{1,2})[/\-\.](\d{1,4}))')
EURO = re.compile(r'(?=(\d{1,2})\s' + MONTH + r'\,?\s?(\d{2,4}))', re.I)
US = re.compile(r'(?=' + MONTH + r'\,?\s?(\d{1,2})\,?\s?(\d{2,4}))', re.I)


def _mk(y, m, d):
    try:
        return datetime.datetime(y, m, d)
    except ValueError:
        return None


def date_candidates(line):
    """All (string, datetime) readings of date-like tokens in the line."""
    out = []
    low = line
    for m in NUM.finditer(low):
        a, b, c = int(m.group(1)), int(m.group(2)), int(m.group(3))
        s = low[m.start(1):m.end(3)]
        for y, mo, d in ((c, b, a), (a, b, c), (c, a, b)):
            dt = _mk(y, mo, d)
            if dt is not None:
                out.append((s, dt))
    for m in EURO.finditer(low):
        d, mo, y = int(m.group(1)), MONTHS[m.group(2)[:3].lower()], \
            int(m.group(3))
        dt = _mk(y, mo, d)
        if dt is not None:
            out.append((low[m.start(1):m.end(3)], dt))
    for m in US.finditer(low):
        mo, d, y = MONTHS[m.group(1)[:3].lower()], int(m.group(2)), \
            int(m.group(3))
        dt = _mk(y, mo, d)
        if dt is not None:
            out.append((low[m.start(1):m.end(3)], dt))
    return out


class Excuse(object):
    def __init__(self, identity_strings, start, stop, slack_days=2):
        self.ids = [s for s in identity_strings if s]
        self.lo = start - datetime.timedelta(days=slack_days + 1)
        self.hi = stop + datetime.timedelta(days=slack_days + 1)

    def plausible_dates(self, text):
        found = set()
        for line in text.splitlines():
            for s, dt in date_candidates(line):
                if self.lo <= dt <= self.hi:
                    found.add(s)
                    # sub-strings the code might cut (group boundaries)
        return found

    def must_check(self, line, text):
        """True iff a change on this line has to be noticed."""
        if any(i in line for i in self.ids):
            return False
        for s, dt in date_candidates(line):
            if self.lo <= dt <= self.hi:
                return False
        for s in self.plausible_dates(text):
            if s in line:
                return False
        return True

    def has_any_excusable(self, text):
        return any(not self.must_check(l, text) for l in text.splitlines())
