"""
M-regen: documented meaning of the regeneration settings (C10).

One global table kind -> True | False | 'maybe' (None = all kinds).
'maybe' arises only from argv placements whose positive meaning is not
documented (DESIGN 6): the oracle then abstains on "must (not) regenerate"
but still restricts what may be written.
"""

WRITE_FLAGS = ('-w', '--w', '--write')
WRITE_ALL_FLAGS = ('--W', '--write-all')
OTHER_TDDA_FLAGS = ('--wquiet', '-wquiet', '--tagged', '--istagged')


class RegenModel(object):
    def __init__(self):
        self.T = {}
        self.verbose = True

    def set(self, kind, value=True):
        self.T[kind] = value

    def lookup(self, kind):
        k = kind if kind in self.T else None
        return self.T.get(k, False)

    def key_used(self, kind):
        return kind if kind in self.T else None

    def apply_argv(self, argv):
        """Returns (documented, named kinds, write_all)."""
        rest = list(argv[1:])
        named = []
        write_all = False
        documented = True
        seen_positional = False
        seen_double = False
        i = 0
        while i < len(rest):
            a = rest[i]
            if a in WRITE_FLAGS:
                tail = rest[i + 1:]
                if not tail:
                    # documented: raises; nothing is set
                    return {'documented': documented, 'named': [],
                            'write_all': write_all, 'raises': True}
                if any(t.startswith('-') for t in tail):
                    documented = False
                for t in tail:
                    for k in t.split(','):
                        named.append(k)
                break
            elif a in WRITE_ALL_FLAGS:
                write_all = True
                if seen_positional:
                    documented = False
            elif a in OTHER_TDDA_FLAGS:
                if a in ('--wquiet', '-wquiet'):
                    self.verbose = False
            elif a.startswith('--'):
                seen_double = True
                documented = False
            elif a.startswith('-') and len(a) > 1:
                if 'W' in a[1:]:
                    write_all = True
                    if seen_positional or seen_double:
                        documented = False
                if seen_positional:
                    pass
            else:
                seen_positional = True
            i += 1
        if seen_positional and (named or write_all):
            documented = False
        val = True if documented else 'maybe'
        for k in named:
            if self.T.get(k) is not True:
                self.T[k] = val
        if write_all:
            if self.T.get(None) is not True:
                self.T[None] = val
        return {'documented': documented, 'named': named,
                'write_all': write_all, 'raises': False}

    def apply_pytest(self, write_all, write, wquiet):
        if wquiet:
            self.verbose = False
        if write_all:
            self.T[None] = True
        elif write:
            for r in write:
                for k in r.split(','):
                    self.T[k] = True

    def snapshot(self):
        return sorted(('~' if k is None else k, str(v))
                      for k, v in self.T.items())
