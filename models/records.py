"""
M-rec: per-record meaning of each constraint kind (C06), written from
tdda_json_file_format.md and the property statement.

    violators(series, kind, value, precision, epsilon) -> set of row positions
                                                           | ABSTAIN

Only called for constraints that *failed* at constraint level.
"""

import datetime
import math
import re

ABSTAIN = 'ABSTAIN'
RE_FLAGS = re.UNICODE | re.DOTALL


def isnull(v):
    import pandas as pd
    try:
        r = pd.isnull(v)
    except Exception:
        return False
    return bool(r) if not hasattr(r, '__len__') else False


def coarse(v):
    import numpy as np
    import pandas as pd
    if isinstance(v, (bool, np.bool_)):
        return 'number'
    if isinstance(v, (int, float, np.integer, np.floating)):
        return 'number'
    if isinstance(v, str):
        return 'string'
    if isinstance(v, (datetime.datetime, datetime.date, pd.Timestamp)):
        return 'date'
    return 'other'


def fuzz_down(b, eps):
    return b * ((1 - eps) if b >= 0 else (1 + eps))


def fuzz_up(b, eps):
    return b * ((1 + eps) if b >= 0 else (1 - eps))


def values(series):
    return list(series.tolist())


def violators(series, kind, value, precision=None, epsilon=0.0,
              column_is_date=False):
    vals = values(series)
    nn = [(i, v) for i, v in enumerate(vals) if not isnull(v)]
    if kind == 'type':
        return set(range(len(vals)))
    if kind == 'max_nulls':
        return {i for i, v in enumerate(vals) if isnull(v)}
    if kind == 'no_duplicates':
        counts = {}
        for i, v in nn:
            counts[v] = counts.get(v, 0) + 1
        return {i for i, v in nn if counts[v] >= 2}
    if kind in ('min', 'max'):
        if not nn:
            return set()
        if isinstance(value, float) and (math.isinf(value)
                                         or math.isnan(value)):
            return ABSTAIN
        ct = {coarse(v) for _, v in nn}
        if len(ct) != 1 or coarse(value) not in ct:
            return ABSTAIN
        if any(isinstance(v, bool) for _, v in nn) or isinstance(value, bool):
            return ABSTAIN
        is_date = coarse(value) == 'date'
        if is_date:
            try:
                import pandas as pd
                b = pd.Timestamp(value)
                cmpvals = [(i, pd.Timestamp(v)) for i, v in nn]
                if any((x.tzinfo is None) != (b.tzinfo is None)
                       for _, x in cmpvals):
                    return ABSTAIN
            except Exception:
                return ABSTAIN
            precision = 'closed'
        else:
            b = value
            cmpvals = nn
        p = precision or 'fuzzy'
        if not is_date:
            big = 2 ** 53
            if p == 'fuzzy' and (abs(b) > big or any(
                    abs(v) > big for _, v in cmpvals
                    if not (isinstance(v, float) and math.isinf(v)))):
                return ABSTAIN      # fuzz is computed in floating point
            if str(getattr(series, 'dtype', '')) == 'float32':
                return ABSTAIN      # narrow-float comparison semantics
        out = set()
        for i, v in cmpvals:
            if kind == 'min':
                if p == 'closed':
                    bad = v < b
                elif p == 'open':
                    bad = v <= b
                else:
                    bad = not (v >= b or v >= fuzz_down(b, epsilon))
            else:
                if p == 'closed':
                    bad = v > b
                elif p == 'open':
                    bad = v >= b
                else:
                    bad = not (v <= b or v <= fuzz_up(b, epsilon))
            if bad:
                out.add(i)
        return out
    if kind in ('min_length', 'max_length'):
        if any(not isinstance(v, str) for _, v in nn):
            return ABSTAIN
        if kind == 'min_length':
            return {i for i, v in nn if len(v) < value}
        return {i for i, v in nn if len(v) > value}
    if kind == 'sign':
        if any(isinstance(v, bool) or coarse(v) != 'number' for _, v in nn):
            return ABSTAIN
        f = {'positive': lambda v: not v > 0,
             'non-negative': lambda v: v < 0,
             'zero': lambda v: v != 0,
             'non-positive': lambda v: v > 0,
             'negative': lambda v: not v < 0,
             'null': lambda v: True}[value]
        if any(isinstance(v, float) and math.isnan(v) for _, v in nn):
            return ABSTAIN
        return {i for i, v in nn if f(v)}
    if kind == 'allowed_values':
        if any(not isinstance(v, str) for _, v in nn):
            return ABSTAIN
        return {i for i, v in nn if v not in value}
    if kind == 'rex':
        if any(not isinstance(v, str) for _, v in nn):
            return ABSTAIN
        try:
            crs = [re.compile(r, RE_FLAGS) for r in value]
        except re.error:
            return ABSTAIN
        return {i for i, v in nn if not any(c.match(v) for c in crs)}
    return ABSTAIN
