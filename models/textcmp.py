"""
M-text: the documented meaning of reference text comparison (C04, C15),
written from the property statement and the user documentation -- not from
the code.

    verdict(actual_text, expected_text, opts) -> ('PASS'|'FAIL'|'ABSTAIN', info)

opts: lstrip, rstrip, ignore_substrings, ignore_patterns, remove_lines,
      preprocess (name of a function in PREPROCESSORS), max_permutation_cases
"""

import re


def pre_drop_first(lines):
    return lines[1:]


def pre_upper(lines):
    return [l.upper() for l in lines]


def pre_sort(lines):
    return sorted(lines)


def pre_strip_comments(lines):
    return [l.split(' //')[0] for l in lines]


PREPROCESSORS = {
    'drop_first': pre_drop_first,
    'upper': pre_upper,
    'sort': pre_sort,
    'strip_comments': pre_strip_comments,
}


def split_lines(text):
    """Lines end at newlines (\\n, \\r\\n, \\r) and nowhere else: a form
    feed, vertical tab, NEL or U+2028 is content, not a line end.  A single
    final empty line is not a line."""
    lines = re.split('\r\n|\r|\n', text)
    if lines[-1] == '':
        lines.pop()
    return lines


def normaliser(opts):
    l, r = opts.get('lstrip'), opts.get('rstrip')
    if l and r:
        return lambda s: s.strip()
    if l:
        return lambda s: s.lstrip()
    if r:
        return lambda s: s.rstrip()
    return lambda s: s


class Abstain(Exception):
    pass


def skeleton(line, patterns):
    """Line with every maximal run of characters matched by any
    ignore-pattern replaced by NUL.  Abstains on empty or overlapping
    matches (meaning not unique)."""
    covered = [False] * len(line)
    spans = []
    which = []
    for k, p in enumerate(patterns):
        for m in p.finditer(line):
            a, b = m.span()
            if a == b:
                raise Abstain('empty-match')
            spans.append((a, b))
            which.append((a, k))
    spans.sort()
    which = [k for a, k in sorted(which)]
    for (a1, b1), (a2, b2) in zip(spans, spans[1:]):
        if a2 < b1:
            raise Abstain('overlapping-matches')
    for a, b in spans:
        for i in range(a, b):
            covered[i] = True
    out = []
    prev = False
    for ch, c in zip(line, covered):
        if c:
            if not prev:
                out.append('\0')
        else:
            out.append(ch)
        prev = c
    # adjacent spans (b1 == a2) are separate matches: count them
    return ''.join(out), len(spans), which


def excused(a, e, norm, opts, patterns):
    if norm(a) == norm(e):
        return True
    for s in opts.get('ignore_substrings') or []:
        if s in e:
            return True
    if patterns:
        sa, na, wa = skeleton(a, patterns)
        se, ne, we = skeleton(e, patterns)
        if sa == se and na == ne and na > 0:
            if wa != we:
                # corresponding parts are matched by *different* patterns:
                # whether that counts as "differ only in matched parts" is
                # not specified
                raise Abstain('different-patterns-same-position')
            return True
        if sa == se and na != ne:
            raise Abstain('adjacent-match-count')
        if norm(a) != a or norm(e) != e:
            # stripping combined with patterns: documented separately, the
            # combination (strip first or match first) is not specified
            sa2 = skeleton(norm(a), patterns)[0]
            se2 = skeleton(norm(e), patterns)[0]
            if (sa2 == se2) != (sa == se):
                raise Abstain('strip-with-pattern')
    return False


def verdict(actual_text, expected_text, opts):
    A = split_lines(actual_text)
    E = split_lines(expected_text)
    info = {}
    try:
        pre = opts.get('preprocess')
        if pre:
            A = PREPROCESSORS[pre](list(A))
            E = PREPROCESSORS[pre](list(E))
        # trailing empty lines: only "a single final empty line is not a
        # line" is documented
        def trail(x):
            n = 0
            while len(x) > n and x[len(x) - 1 - n] == '':
                n += 1
            return n
        ta, te = trail(A), trail(E)
        if ta != te and A[:len(A) - ta] == E[:len(E) - te]:
            raise Abstain('trailing-empty-lines')
        if A and A[-1] == '':
            A = A[:-1]
        if E and E[-1] == '':
            E = E[:-1]
        rem = opts.get('remove_lines') or []
        for r in rem:
            if any(c in r for c in '\n\r'):
                raise Abstain('separator-in-substring')
        A_idx = [i for i, l in enumerate(A) if not any(r in l for r in rem)]
        E_idx = [i for i, l in enumerate(E) if not any(r in l for r in rem)]
        A2 = [A[i] for i in A_idx]
        E2 = [E[i] for i in E_idx]
        info['n_actual'] = len(A2)
        info['n_expected'] = len(E2)
        info['removed'] = (len(A) - len(A2)) + (len(E) - len(E2))
        if len(A2) != len(E2):
            info['unexcused'] = None
            return 'FAIL', info
        norm = normaliser(opts)
        patterns = [re.compile(p) for p in opts.get('ignore_patterns') or []]
        unexc = [i for i in range(len(A2))
                 if not excused(A2[i], E2[i], norm, opts, patterns)]
        info['unexcused'] = unexc
        info['unexcused_orig_actual'] = [A_idx[i] for i in unexc]
        info['unexcused_orig_expected'] = [E_idx[i] for i in unexc]
        info['excused_diff'] = [i for i in range(len(A2))
                                if i not in unexc
                                and norm(A2[i]) != norm(E2[i])]
        if not unexc:
            return 'PASS', info
        mpc = opts.get('max_permutation_cases') or 0
        if len(unexc) <= mpc:
            if sorted(A2[i] for i in unexc) == sorted(E2[i] for i in unexc):
                info['permutation'] = True
                return 'PASS', info
            # "permutations of each other" after stripping is unspecified
            if (sorted(norm(A2[i]) for i in unexc)
                    == sorted(norm(E2[i]) for i in unexc)):
                raise Abstain('permutation-modulo-strip')
        return 'FAIL', info
    except Abstain as a:
        info['abstain'] = str(a)
        return 'ABSTAIN', info
