"""
M-GEN: gentest against a simulated command (C11, C12).

System (real code): tdda.referencetest.gentest (TestGenerator, diffrex,
FileType/chardet, rexpy for exclusions) and then the *generated script*,
imported from its file and run with unittest in-process (so that its
exec_command uses the same seams).
Peer: a command program (ordered effects out/err/write/exit, duration),
deterministic by construction => "repeatable command".
Simulator-owned: wall clock (gentest.datetime), timer, file change times as
seen by gentest (gentest.os.stat), hostname/ip/user/home/cwd/tmpdir, the
child process (gentest.subprocess.Popen -> SimPopen).
"""

import collections
import copy
import datetime
import importlib.util
import io
import os
import re
import sys
import types
import unittest

from sim import fsaudit
from sim.world import World
from sim.watchdog import WatchdogTimeout
from gens import commands as gc
from models.excuse import Excuse

NAME = 'M-GEN'
PROPS = ('C11', 'C12')
TIERS = {
    'C11': {'quick': {'runs': 8000, 'wall_cap': 240},
            'thorough': {'runs': 150000, 'wall_cap': 1500}},
    'C12': {'quick': {'runs': 8000, 'wall_cap': 240},
            'thorough': {'runs': 150000, 'wall_cap': 1500}},
}
LEVELS = {p: 'exploration' for p in PROPS}
STATES_MEASURE = ('distinct (set of generated test names, exclusion kinds '
                  'present in the script, change kind) tuples')
COMPONENTS = {
    'real': ['tdda.referencetest.gentest (TestGenerator, gentest())',
             'tdda.referencetest.diffrex', 'tdda.referencetest.utils.FileType '
             '(chardet)', 'tdda.rexpy (exclusion patterns)',
             'the generated test script (imported from its file, run by '
             'unittest loader/TestResult in-process)',
             'ReferenceTestCase assertions in the generated script',
             'real files in a RAM directory tree'],
    'stub': ['shell + child process (SimPopen executes the plan\'s command '
             'program)', 'wall clock and timer (SimClock)',
             'file change times as seen by gentest (simulated ctime)',
             'hostname / ip / user / HOME / TMPDIR'],
}
RULES = {
    'C11': 'each run = a simulated identity+clock, bystander files, one '
           'deterministic command program, gentest() with a seeded option '
           'set, then the generated script run straight afterwards; clock '
           'steps (days, midnight) between iteration start/stop and before '
           'the script runs; optionally gentest again over the existing '
           'script/ref dir, and/or a second different command generated '
           'and run in the same simulated process; non-trivial = output contains an identity or '
           'date-like token, or output files exist, or a clock/ctime fault '
           'fired; distinct = distinct (options, reference-file form, test '
           'names, exclusion kinds, outcome) shapes',
    'C12': 'history generate -> script passes -> the peer changes behaviour '
           'in exactly one way (or not at all, with a clock jump) -> re-run; '
           'changes are applied only where the M-excuse model says the line '
           'must be checked; non-trivial/distinct as C11 plus change kind',
}
ASSUMPTIONS = {
    'C11': ['command output is valid UTF-8 text (binary only in files)',
            'absolute script names point into the working directory',
            'SimPopen is faithful to /bin/sh for the effects used '
            '(stub-fidelity tool: tools/gentest_fidelity.py)'],
    'C12': ['a change is only demanded to be noticed on lines that contain '
            'no simulated identity string and no date within +-2 days of '
            'simulated time in any reading (M-excuse); other lines abstain',
            'with --no-stdout/--no-stderr the stream obligation is dropped'],
}

HOSTS = ['sim7', 'buildbox', 'vm', 'a', 'host-01.example.org', 'total']
USERS = ['ada', 'root', 'ok', 'e', 'jdoe']


# --------------------------------------------------------------------------
# generation
# --------------------------------------------------------------------------

def gen_config(r):
    host = r.weighted([(5, 'sim7'), (2, 'buildbox'), (1, 'vm'), (0.5, 'a'),
                       (1, 'host-01.example.org'), (0.7, 'total')])
    user = r.weighted([(5, 'ada'), (2, 'root'), (0.7, 'ok'), (0.4, 'e'),
                       (2, 'jdoe')])
    y = r.randint(2024, 2037)
    base = datetime.datetime(y, r.randint(1, 12), r.randint(1, 28),
                             r.randint(0, 23), r.randint(0, 59),
                             r.randint(0, 59))
    if r.chance(0.25):
        base = base.replace(hour=23, minute=59, second=r.randint(50, 59))
    if r.chance(0.05):
        base = datetime.datetime(y, 12, 31, 23, 59, 58)
    return {'identity': {'host': host, 'user': user,
                         'ip': '10.1.%d.%d' % (r.randint(0, 255),
                                               r.randint(1, 254)),
                         'home_is_parent_of_cwd': r.chance(0.3),
                         'ip_unresolvable': r.chance(0.1),
                         'tmpdir_is_symlink': r.chance(0.2),
                         'outputs_keep_fixed_mtime': r.chance(0.2),
                         'symlinked_dir_bystander': r.chance(0.15),
                         'default_encoding': r.weighted([(9, None),
                                                         (1, 'cp1252')])},
            'clock0': base.isoformat()}


def ident_strings(cfg, W=None):
    i = cfg['identity']
    root = W.root if W else '/W'
    home = (root if i.get('home_is_parent_of_cwd')
            else os.path.join(root, 'home'))
    return {'host': i['host'], 'user': i['user'], 'ip': i['ip'],
            'cwd': os.path.join(root, 'cwd'), 'home': home,
            'tmpdir': os.path.join(root, 'tmp', 'gt')}


def gen_gentest_op(r, prog_refs, name='x'):
    script = r.weighted([(5, 'test_%s.py' % name), (2, 'test_%s' % name),
                         (1, name), (1, 'ABS:test_%s.py' % name),
                         (0.5, '-')])
    return {'op': 'gentest', 'command': 'cmd_%s' % name, 'script': script,
            'reference_files': list(prog_refs),
            'iterations': r.weighted([(2, 1), (6, 2), (2, 3)]),
            'no_stdout': r.chance(0.12), 'no_stderr': r.chance(0.12),
            'non_zero_exit': r.chance(0.35),
            # through the command-line wrapper (flag spellings) or the API
            'via_cli': r.chance(0.4), 'long_flags': r.chance(0.5)}


def gen_plan(prop, r, tier, run):
    cfg = gen_config(r)
    now = datetime.datetime.fromisoformat(cfg['clock0'])
    ident = ident_strings(cfg)
    prog, refs = gc.gen_program(r, ident, now)
    cfg['programs'] = {'cmd_x': prog}
    by = []
    if r.chance(0.5):
        for j in range(r.randint(1, 3)):
            p = r.pick(['keep.txt', 'notes.md', 'outdir/old.txt',
                        'out.txt', 'data.csv', 'ref/other/STDOUT',
                        'test_other.py', 'result.txt'])
            by.append({'path': p, 'text': gc.gen_text(r, ident, now, 3),
                       'age': r.pick([0, 0, 5, 3600, -400 * 86400])})
    if r.chance(0.3):
        # the command was run here before: older copies of its own outputs
        for e in prog['effects']:
            if e['t'] == 'write' and 'text' in e and \
                    not e['path'].startswith('$TMPDIR') and r.chance(0.7):
                by.append({'path': e['path'],
                           'text': e['text'] if r.chance(0.5)
                           else gc.gen_text(r, ident, now, 3),
                           'age': r.pick([5, 3600])})
    # a pre-existing file that the user's own explicit name or glob matches
    # is "named as an output" although the command never writes it: user
    # error, not gentest's -- keep such bystanders out of the workload
    import fnmatch
    written = {e['path'] for e in prog['effects'] if e['t'] == 'write'}
    by = [b for b in by if b['path'] in written or not any(
        fnmatch.fnmatch(b['path'], pat) or b['path'] == pat
        for pat in refs)]
    cfg['bystanders'] = by
    ops = []
    g = gen_gentest_op(r, refs)
    if r.chance(0.3):
        g['clock_during'] = r.pick([1, 86400, 3 * 86400, -86400, 20])
    ops.append(g)
    if prop == 'C11':
        if r.chance(0.12):
            g0, _ = make_unstable(r, prog, g)
            ops.insert(0, g0)
        run_op = {'op': 'run_script'}
        if r.chance(0.2):
            run_op['clock'] = r.pick([60, 86400, 40 * 86400, -3600])
        ops.append(run_op)
        if r.chance(0.25):
            g2 = copy.deepcopy(g)
            g2['iterations'] = r.pick([1, 2])
            ops.append(g2)
            ops.append({'op': 'run_script'})
        if r.chance(0.3):
            # a second, different command generated in the same process
            # (same gentest scratch directory, same working directory)
            prog2, refs2 = gc.gen_program(r, ident, now)
            w1 = {e['path'] for e in prog['effects'] if e['t'] == 'write'}
            w2 = {e['path'] for e in prog2['effects'] if e['t'] == 'write'}
            stale = [p for p in (w1 | {b['path'] for b in by}) - w2
                     if not p.startswith('$TMPDIR')]
            # what the first generation itself left in the directory
            stale += ['test_x.py', 'test_cmd_x.py', 'ref']
            if not any(fnmatch.fnmatch(p, pat) or p == pat
                       for p in stale for pat in refs2):
                cfg['programs']['cmd_y'] = prog2
                g3 = gen_gentest_op(r, refs2, name='y')
                ops.append(g3)
                ops.append({'op': 'run_script'})
    else:
        unstable = r.chance(0.2)
        if unstable:
            g0, e = make_unstable(r, prog, g)
            ops.insert(0, g0)
        ops.append({'op': 'run_script'})
        ch = gen_change(r, prog, g)
        if unstable and r.chance(0.8):
            # ... and the change is to the number that used to vary
            ch = {'op': 'peer_change', 'command': 'cmd_x',
                  'kind': {'out': 'out', 'err': 'err',
                           'write': 'file'}[e['t']],
                  'how': 'alter_char', 'line': r.random(), 'pos': 0.99,
                  'char': r.pick('0123456789'), 'new_line': 'x', 'sep': '',
                  'prefer': 'session 424242'}
            if e['t'] == 'write':
                ch['file'] = [x for x in prog['effects']
                              if x['t'] == 'write'].index(e)
        ops.append(ch)
        run2 = {'op': 'run_script', 'after_change': True}
        if r.chance(0.12):
            run2['fail_dir_gone'] = True
        if r.chance(0.3) or ch['kind'] == 'none':
            run2['clock'] = r.pick([5, 86400, 10 * 86400, 400 * 86400])
        ops.append(run2)
    for i, op in enumerate(ops):
        op['i'] = i
    return {'config': cfg, 'ops': ops}


def make_unstable(r, prog, g):
    """History: the test was first generated while the command's output
    still changed from run to run; the command was then made repeatable and
    the test generated again (same script, same reference paths, same
    process).  Marks one text effect as varying and returns the earlier
    generation op and that effect."""
    cands = [e for e in prog['effects']
             if e['t'] in ('out', 'err')
             or (e['t'] == 'write' and 'text' in e)]
    if not cands:
        prog['effects'].insert(0, {'t': 'out', 'text': ''})
        cands = [prog['effects'][0]]
    e = r.pick(cands)
    t = e['text']
    if t and not t.endswith('\n'):
        t += '\n'
    e['text'] = t + 'session 424242\n'
    e['vary'] = True
    g0 = copy.deepcopy(g)
    g0['unstable'] = True
    g0['iterations'] = r.pick([2, 3])
    g0.pop('clock_during', None)
    if r.chance(0.5):
        # ... and that earlier generation, asked for more runs, was aborted
        # when a later run of the command failed
        g0['iterations'] = r.pick([4, 5])
        g0['abort_at'] = r.randint(3, g0['iterations'])
    return g0, e


def gen_change(r, prog, g):
    files = [e for e in prog['effects'] if e['t'] == 'write']
    kinds = [(2, 'none'), (5, 'out'), (2, 'err'), (2, 'exit')]
    if files:
        kinds += [(5, 'file'), (2, 'file_missing')]
    k = r.weighted(kinds)
    ch = {'op': 'peer_change', 'kind': k, 'command': 'cmd_x'}
    if k in ('out', 'err', 'file'):
        ch['how'] = r.weighted([(4, 'alter_char'), (2, 'add_line'),
                                (2, 'remove_line'), (1, 'alter_byte'),
                                (1.5, 'join_lines')])
        ch['sep'] = r.pick(['\x0b', '\x0c', '\x85', '\u2028', '\x1c'])
        ch['line'] = r.random()
        ch['pos'] = r.random()
        ch['char'] = r.pick('xyz019#Q')
        ch['new_line'] = r.pick(['extra line', 'total 5', 'warning!'])
    if k in ('file', 'file_missing'):
        ch['file'] = r.randrange(len(files))
    if k == 'exit':
        ch['code'] = r.pick([0, 1, 2, 3])
    return ch


# --------------------------------------------------------------------------
# simulated environment
# --------------------------------------------------------------------------

class SimClock(object):
    def __init__(self, iso):
        self.base = datetime.datetime.fromisoformat(iso)
        self.t = 0.0
        self.total = 0.0

    def now(self):
        return self.base + datetime.timedelta(seconds=self.t)

    def advance(self, s):
        self.t += s
        self.total += abs(s)


class Sim(object):
    """Everything the patched gentest module talks to."""

    def __init__(self, W, cfg, ctx):
        self.W = W
        self.cfg = cfg
        self.ctx = ctx
        self.clock = SimClock(cfg['clock0'])
        self.ctimes = {}
        self.programs = copy.deepcopy(cfg['programs'])
        # plans name world paths with the placeholder root /W (cwd, home,
        # tmpdir tokens in the command's output): bind it to the real root
        for prog in self.programs.values():
            for e in prog['effects']:
                if 'text' in e:
                    e['text'] = bind_root(e['text'], W.root)
        self.popen_calls = 0
        self.clock_during = None
        self.same_tick = False
        self.unstable = False
        self.abort_at = None

    def touch(self, path):
        self.ctimes[os.path.abspath(path)] = self.clock.t


def bind_root(text, root):
    return re.sub(r'/W(?=/|\b)', lambda m: root, text)


def make_datetime_shim(sim):
    class SimDateTime(datetime.datetime):
        @classmethod
        def now(cls, tz=None):
            n = sim.clock.now()
            return cls(n.year, n.month, n.day, n.hour, n.minute, n.second,
                       n.microsecond)
    return types.SimpleNamespace(datetime=SimDateTime,
                                 timedelta=datetime.timedelta,
                                 date=datetime.date)


class StatProxy(object):
    def __init__(self, st, ctime):
        self._st = st
        self.st_ctime = ctime

    def __getattr__(self, name):
        return getattr(self._st, name)


class OsProxy(object):
    """`os` as seen by gentest: stat() reports simulated change times."""

    def __init__(self, sim):
        self._sim = sim
        self.path = os.path
        self.environ = os.environ
        self.sep = os.sep
        self.name = os.name

    def stat(self, path, *a, **kw):
        st = os.stat(path, *a, **kw)
        ap = os.path.abspath(path)
        if ap in self._sim.ctimes:
            return StatProxy(st, self._sim.ctimes[ap])
        return StatProxy(st, -1.0)      # untouched since before the run

    def __getattr__(self, name):
        return getattr(os, name)


VARY_TOKEN = 'session 424242'


class SimPopen(object):
    def __init__(self, sim, command, stdin=None, stdout=None, stderr=None,
                 shell=False, cwd=None, close_fds=True, env=None, **kw):
        self.sim = sim
        self.command = command
        self.cwd = cwd or os.getcwd()
        self.env = env if env is not None else os.environ
        self.returncode = None

    def communicate(self, input=None):
        sim = self.sim
        sim.popen_calls += 1
        prog = sim.programs.get(self.command)
        if prog is None:
            self.returncode = 127
            return b'', ('sh: %s: command not found\n'
                         % self.command).encode('utf-8')
        out, err, code = [], [], 0
        dur = prog.get('duration', 0.01)
        if sim.clock_during is not None and sim.popen_calls == 1:
            # a clock step while the first iteration runs
            sim.clock.advance(sim.clock_during)
            sim.ctx.stats['faults']['clock_step_during_command'] += 1
        sim.clock.advance(dur / 2.0)
        tmp_tok = os.path.join(sim.W.root, 'tmp', 'gt')
        tmp_now = self.env.get('TMPDIR') or tmp_tok

        def text_of(e):
            t = e['text']
            # what the command prints for $TMPDIR is the directory it is
            # given on *this* run (the generated test makes a fresh one)
            if tmp_now != tmp_tok and tmp_tok in t:
                t = t.replace(tmp_tok, tmp_now)
                sim.ctx.stats['probes']['tmpdir_differs_at_test_time'] += 1
            # while the command is still unstable, a marked effect carries a
            # number that changes from run to run
            if sim.unstable and e.get('vary'):
                sim.ctx.stats['faults']['output_varies_between_runs'] += 1
                return t.replace(VARY_TOKEN, 'session %06d' % (
                    424242 + sim.popen_calls))
            return t
        for e in prog['effects']:
            if e['t'] == 'out':
                out.append(text_of(e))
            elif e['t'] == 'err':
                err.append(text_of(e))
            elif e['t'] == 'write':
                p = e['path']
                if p.startswith('$TMPDIR/'):
                    p = os.path.join(self.env.get('TMPDIR', '/nonexistent'),
                                     p[len('$TMPDIR/'):])
                else:
                    p = os.path.join(self.cwd, p)
                os.makedirs(os.path.dirname(p), exist_ok=True)
                with io.open(p, 'wb') as f:
                    f.write(bytes.fromhex(e['hex']) if 'hex' in e
                            else text_of(e).encode('utf-8'))
                if sim.cfg['identity'].get('outputs_keep_fixed_mtime'):
                    # the command normalises the time stamps of what it
                    # writes (reproducible-build style)
                    os.utime(p, (1000000000, 1000000000))
                    sim.ctx.stats['probes']['output_with_normalised_mtime'] \
                        += 1
                ap = os.path.abspath(p)
                if sim.same_tick and ap in sim.ctimes:
                    sim.ctx.stats['faults']['ctime_same_tick'] += 1
                else:
                    sim.clock.advance(0.001)
                    sim.touch(p)
            elif e['t'] == 'exit':
                code = e['code']
        if sim.unstable and getattr(sim, 'abort_at', None) == sim.popen_calls:
            code = 3 if code == 0 else 0
            sim.ctx.stats['faults']['command_fails_on_a_later_run'] += 1
        sim.clock.advance(dur / 2.0)
        self.returncode = code
        return ''.join(out).encode('utf-8'), ''.join(err).encode('utf-8')


class Patches(object):
    """Installs/removes the seams on the gentest module."""

    def __init__(self, gentest, sim, W, ident):
        self.g = gentest
        self.sim = sim
        self.W = W
        self.ident = ident

    def __enter__(self):
        g, sim = self.g, self.sim
        self.saved = {k: getattr(g, k) for k in (
            'datetime', 'timeit', 'subprocess', 'socket', 'getpass', 'os',
            'TMPDIR', 'TERM_TMPDIR')}
        g.datetime = make_datetime_shim(sim)
        g.timeit = types.SimpleNamespace(
            default_timer=lambda: sim.clock.t)
        g.subprocess = types.SimpleNamespace(
            Popen=lambda *a, **kw: SimPopen(sim, *a, **kw), PIPE=-1)
        ident = self.ident
        import socket as _socket

        def resolve(h):
            # the machine's own name may not resolve (no DNS entry, no
            # /etc/hosts line for a container's host name)
            if sim.cfg['identity'].get('ip_unresolvable'):
                sim.ctx.stats['faults']['own_host_name_does_not_resolve'] += 1
                sim.ctx.nontrivial = True
                raise _socket.gaierror(-2, 'Name or service not known')
            return ident['ip']
        g.socket = types.SimpleNamespace(
            gethostname=lambda: ident['host'],
            gethostbyname=resolve, gaierror=_socket.gaierror,
            error=_socket.error, herror=_socket.herror)
        g.getpass = types.SimpleNamespace(getuser=lambda: ident['user'])
        g.os = OsProxy(sim)
        if sim.cfg['identity'].get('tmpdir_is_symlink') and \
                not os.path.lexists(ident['tmpdir']):
            # the system's temporary directory is reached through a link
            # (/tmp -> /private/tmp and the like)
            real = ident['tmpdir'] + '-real'
            os.makedirs(real, exist_ok=True)
            os.symlink(real, ident['tmpdir'])
            sim.ctx.stats['probes']['tmpdir_reached_through_symlink'] += 1
        os.makedirs(ident['tmpdir'], exist_ok=True)
        g.TMPDIR = ident['tmpdir']
        g.TERM_TMPDIR = ident['tmpdir'] + os.path.sep
        return self

    def __exit__(self, *exc):
        for k, v in self.saved.items():
            setattr(self.g, k, v)
        return False


# --------------------------------------------------------------------------
# execution
# --------------------------------------------------------------------------

class Ctx(object):
    pass


def execute(plan):
    from tdda.referencetest import gentest
    from tdda.referencetest import referencetest as rt
    from tdda.rexpy import rexpy

    prop = plan['property']
    ctx = Ctx()
    ctx.prop = prop
    ctx.events = []
    ctx.violations = []
    ctx.stats = {'faults': collections.Counter(),
                 'probes': collections.Counter(),
                 'abstain': collections.Counter(),
                 'checks': collections.Counter()}
    ctx.states = set()
    ctx.shape = []
    ctx.nontrivial = False
    ctx.gentest = gentest
    cfg = plan['config']
    RT = rt.ReferenceTest
    saved = {'tmp_dir': RT.__dict__.get('tmp_dir'),
             'regenerate': dict(RT.regenerate),
             'print_fn': RT.__dict__.get('print_fn'),
             'stdout': sys.stdout, 'stderr': sys.stderr,
             'argv': sys.argv, 'modules': set(sys.modules)}
    env = {}
    with World() as W:
        ident = ident_strings(cfg, W)
        os.environ['HOME'] = ident['home']
        ctx.W = W
        ctx.ident = ident
        sim = Sim(W, cfg, ctx)
        ctx.sim = sim
        RT.regenerate.clear()
        RT.tmp_dir = W.path('fail')
        RT.print_fn = staticmethod(lambda *a, **kw: None)
        rexpy.memo.clear()
        sys.stdout = io.StringIO()
        sys.stderr = io.StringIO()
        try:
            for b in cfg.get('bystanders', []):
                p = W.path('cwd', b['path'])
                os.makedirs(os.path.dirname(p), exist_ok=True)
                with io.open(p, 'wb') as f:
                    f.write(bind_root(b['text'], W.root).encode('utf-8'))
                sim.ctimes[os.path.abspath(p)] = -float(b.get('age', 0))
                if b.get('age', 0) < 0:
                    # a file dated in the future (unpacked from an archive
                    # made on a machine with a fast clock): old as far as
                    # change time goes, "new" by modification time
                    import time as _time
                    fut = _time.time() - float(b['age'])
                    os.utime(p, (fut, fut))
                    sim.ctimes[os.path.abspath(p)] = -3600.0
                    ctx.stats['faults']['bystander_dated_in_the_future'] += 1
            if cfg['identity'].get('symlinked_dir_bystander'):
                # the working directory holds a link to a directory of old
                # files kept elsewhere
                real = W.path('elsewhere', 'docs')
                os.makedirs(real, exist_ok=True)
                for nm in ('old notes.txt', 'LICENSE'):
                    with io.open(os.path.join(real, nm), 'wb') as f:
                        f.write(b'kept since long ago\n')
                if not os.path.lexists(W.path('cwd', 'docs-link')):
                    os.makedirs(W.path('cwd'), exist_ok=True)
                    os.symlink(real, W.path('cwd', 'docs-link'))
                ctx.stats['probes']['symlinked_directory_of_old_files'] += 1
            with Patches(gentest, sim, W, ident):
                ctx.last_gen = None
                ctx.baseline_pass = None
                for op in plan['ops']:
                    if 'clock' in op:
                        sim.clock.advance(op['clock'])
                        ctx.stats['faults']['clock_jump_between_ops'] += 1
                        ctx.nontrivial = True
                    k = op['op']
                    if k == 'gentest':
                        run_gentest(ctx, op)
                    elif k == 'run_script':
                        run_script_op(ctx, op)
                    elif k == 'peer_change':
                        run_peer_change(ctx, op)
        finally:
            sys.stdout = saved['stdout']
            sys.stderr = saved['stderr']
            sys.argv = saved['argv']
            RT.regenerate.clear()
            RT.regenerate.update(saved['regenerate'])
            for k in ('tmp_dir', 'print_fn'):
                if saved[k] is not None:
                    setattr(RT, k, saved[k])
            for m in set(sys.modules) - saved['modules']:
                if m.startswith('_gen_script_'):
                    del sys.modules[m]
            rexpy.memo.clear()
    return {'events': ctx.events, 'violations': ctx.violations,
            'stats': {k: dict(v) for k, v in ctx.stats.items()},
            'shape': '|'.join(ctx.shape), 'nontrivial': ctx.nontrivial,
            'states': sorted(ctx.states),
            'interleaving': ''.join(op['op'][0] for op in plan['ops']),
            'sim_time': sim.clock.total}


def violation(ctx, op, clause, tag, detail):
    sig = '%s/%s/%s' % (ctx.prop, clause, tag)
    ctx.violations.append({'clause': clause, 'signature': sig,
                           'detail': ctx.W.scrub(detail), 'at_op': op['i']})


def exc_tag(e):
    import traceback
    fn = '?'
    for fr in traceback.extract_tb(e.__traceback__):
        if '/tdda/' in fr.filename:
            fn = fr.name
    return '%s@%s' % (type(e).__name__, fn)


def program_texts(prog):
    out = ''.join(e['text'] for e in prog['effects'] if e['t'] == 'out')
    err = ''.join(e['text'] for e in prog['effects'] if e['t'] == 'err')
    code = 0
    for e in prog['effects']:
        if e['t'] == 'exit':
            code = e['code']
    files = [e for e in prog['effects'] if e['t'] == 'write']
    return out, err, code, files


def text_class(ctx, prog):
    """Short input-class tag for signatures."""
    out, err, code, files = program_texts(prog)
    alltext = out + err + ''.join(f.get('text', '') for f in files)
    tags = []
    if re.search(r'\d{1,4}[/\-\.]\d{1,2}[/\-\.]\d{1,4}', alltext):
        tags.append('numeric-triple')
    if re.search(r'(jan|feb|mar|apr|may|jun|jul|aug|sep|oct|nov|dec)',
                 alltext, re.I):
        tags.append('month-name')
    if any(v and v in alltext for v in ctx.ident.values()):
        tags.append('identity')
    if any(ord(c) > 127 for c in alltext):
        tags.append('unicode')
    return '+'.join(tags) or 'plain'


def script_path(ctx, op):
    s = op['script']
    W = ctx.W
    if s.startswith('ABS:'):
        return W.path('cwd', s[4:]), W.path('cwd', s[4:])
    if s == '-':
        return '-', None
    return s, None


def expected_script_file(ctx, op):
    s = op['script']
    if s.startswith('ABS:'):
        s = s[4:]
    if s == '-':
        s = 'test_' + ''.join(c if c.isalnum() else '_'
                              for c in op['command'])
    stem, ext = os.path.splitext(s)
    s = stem + (ext or '.py')
    d, name = os.path.split(s)
    if not name.startswith('test'):
        name = 'test_' + name
    return ctx.W.path('cwd', d, name)


def run_gentest(ctx, op):
    W, sim, g = ctx.W, ctx.sim, ctx.gentest
    prog = sim.programs[op['command']]
    out, err, code, files = program_texts(prog)
    script_arg, _ = script_path(ctx, op)
    script_file = expected_script_file(ctx, op)
    name = os.path.basename(script_file)[4:-3]
    name = name[1:] if name.startswith('_') else name
    refdir = W.path('cwd', 'ref', name)
    roots = [W.path('cwd')]
    before = fsaudit.snapshot(roots)
    sim.popen_calls = 0
    sim.clock_during = op.get('clock_during')
    sim.same_tick = bool(op.get('same_tick'))
    sim.unstable = bool(op.get('unstable'))
    sim.abort_at = op.get('abort_at')
    if sim.clock_during is not None:
        ctx.nontrivial = True
    outcome, exc = 'ok', None
    denc = None
    if ctx.sim.cfg['identity'].get('default_encoding'):
        # a process whose preferred text encoding is not UTF-8
        from sim.defaultenc import DefaultEncoding
        denc = DefaultEncoding(ctx.sim.cfg['identity']['default_encoding'],
                               ctx.stats['faults'])
        denc.__enter__()
    try:
        if op.get('via_cli'):
            lf = op.get('long_flags')
            argv = []
            if op['no_stdout']:
                argv.append('--no-stdout' if lf else '-O')
            if op['no_stderr']:
                argv.append('--no-stderr' if lf else '-E')
            if op['non_zero_exit']:
                argv.append('--non-zero-exit' if lf else '-Z')
            argv += ['--iterations' if lf else '-n', str(op['iterations'])]
            argv += [op['command'], script_arg] + list(op['reference_files'])
            g.gentest_wrapper(argv)
            ctx.stats['probes']['gentest_via_command_line_flags'] += 1
        else:
            g.gentest(op['command'], script_arg,
                      list(op['reference_files']),
                      iterations=op['iterations'],
                      no_stdout=op['no_stdout'], no_stderr=op['no_stderr'],
                      non_zero_exit=op['non_zero_exit'])
    except WatchdogTimeout:
        raise
    except SystemExit as e:
        outcome, exc = 'exit', e
    except BaseException as e:
        if isinstance(e, KeyboardInterrupt):
            if denc:
                denc.__exit__(None, None, None)
            raise
        outcome, exc = 'error', e
    if denc:
        denc.__exit__(None, None, None)
    sim.clock_during = None
    sim.unstable = False
    sim.abort_at = None
    after = fsaudit.snapshot(roots)
    delta = fsaudit.diff(before, after, ignore_mtime=True)
    cls = text_class(ctx, prog)
    if cls != 'plain' or files:
        ctx.nontrivial = True
    ev = {'i': op['i'], 'op': 'gentest', 'outcome': outcome,
          'exc': exc_tag(exc) if outcome == 'error' else None,
          'delta': [(W.rel(p), c) for p, c in delta]}
    ctx.events.append(ev)
    ctx.last_gen = None
    ctx.baseline_pass = None
    if op.get('unstable'):
        # an earlier generation for a command that was not yet repeatable:
        # history only, the properties say nothing about it
        ctx.shape.append('Gu:%s' % outcome)
        ctx.stats['probes']['earlier_generation_while_unstable'] += 1
        ctx.nontrivial = True
        return
    expect_exit = (code != 0 and not op['non_zero_exit'])
    ctx.shape.append('G%d%s%s%s:%s:%s' % (
        op['iterations'], 'O' if op['no_stdout'] else '',
        'E' if op['no_stderr'] else '', 'Z' if op['non_zero_exit'] else '',
        refs_form(op['reference_files']), outcome))
    if ctx.prop == 'C11':
        ctx.stats['checks']['generations'] += 1
    if outcome == 'error':
        if ctx.prop == 'C11':
            violation(ctx, op, 'no-crash', '%s/%s' % (
                exc_tag(exc), re.sub(r'[^A-Za-z]+', '-', re.sub(
                    r"'[^']*'", 'X', str(exc)))[:40].strip('-')),
                      'gentest raised %r\nstdout=%r\nstderr=%r\nfiles=%r\n'
                      'now=%s' % (exc, out[:500], err[:300],
                                  [(f['path'], f.get('text', '<binary>')[:200])
                                   for f in files], sim.clock.now()))
        else:
            ctx.stats['abstain']['generation_failed(C11 matter)'] += 1
        return
    if outcome == 'exit':
        if expect_exit:
            ctx.stats['probes']['documented_exit_on_nonzero_status'] += 1
        elif ctx.prop == 'C11':
            violation(ctx, op, 'completes', 'SystemExit/%s' % cls,
                      'gentest exited (%r) for a repeatable command with '
                      'exit status %d, non_zero_exit=%s\n%s'
                      % (exc.code, code, op['non_zero_exit'],
                         sys.stderr.getvalue()[-600:]))
        return
    if expect_exit and ctx.prop == 'C11':
        # completing anyway is not forbidden by the statement
        ctx.stats['probes']['nonzero_status_but_completed'] += 1
    # ---- script exists and compiles
    if not os.path.exists(script_file):
        if ctx.prop == 'C11':
            violation(ctx, op, 'script-written', refs_form(
                op['reference_files']),
                'no script at %s; cwd has %r' % (
                    W.rel(script_file), sorted(os.listdir(W.path('cwd')))))
        return
    with io.open(script_file, encoding='utf-8') as f:
        src = f.read()
    try:
        compile(src, script_file, 'exec')
    except SyntaxError as e:
        if ctx.prop == 'C11':
            violation(ctx, op, 'script-compiles', cls,
                      'generated script does not compile: %s\n%s'
                      % (e, src[-1500:]))
        return
    ctx.last_gen = {'op': op, 'script': script_file, 'refdir': refdir,
                    'src': src, 'name': name, 'start': sim.clock.now()}
    kinds = sorted(set(re.findall(r'(ignore_patterns|ignore_substrings|'
                                  r'remove_lines)=', src)))
    tests = sorted(re.findall(r'def (test_\w+)\(', src))
    ctx.last_gen['tests'] = tests
    ctx.last_gen['exclusion_kinds'] = kinds
    ctx.states.add('%s|%s' % (','.join(tests), ','.join(kinds)))
    if kinds:
        ctx.stats['probes']['script_has_' + '+'.join(kinds)] += 1
        ctx.nontrivial = True
    if ctx.prop != 'C11':
        return
    # ---- audit: nothing else in cwd altered or removed
    own = (script_file,)
    allowed_prefix = refdir + os.sep
    prog_paths = set()
    for f in files:
        if not f['path'].startswith('$TMPDIR/'):
            prog_paths.add(W.path('cwd', f['path']))
    bad = []
    for p, c in delta:
        if p in own or p == refdir or p.startswith(allowed_prefix):
            continue
        if p == W.path('cwd', 'ref'):
            continue
        if p in prog_paths or any(pp.startswith(p + os.sep)
                                  for pp in prog_paths):
            continue            # the command's own writes
        bad.append((W.rel(p), c))
    if bad:
        violation(ctx, op, 'others-untouched',
                  '+'.join(sorted({c for _, c in bad})),
                  'generation changed files that are neither the script, '
                  'its reference directory nor the command\'s outputs: %r'
                  % bad)
    for f in files:
        if f['path'].startswith('$TMPDIR/'):
            continue
        p = W.path('cwd', f['path'])
        want = bytes.fromhex(f['hex']) if 'hex' in f else \
            f['text'].encode('utf-8')
        got = None
        if os.path.exists(p):
            with io.open(p, 'rb') as fh:
                got = fh.read()
        if got != want:
            violation(ctx, op, 'command-outputs-intact',
                      'missing' if got is None else 'altered',
                      'after generation the command\'s output %s is %s'
                      % (W.rel(p), 'missing' if got is None else 'altered'))
    ctx.stats['checks']['audits'] += 1


def refs_form(refs):
    if not refs:
        return 'default'
    if any('*' in x or '?' in x for x in refs):
        return 'glob'
    if refs == ['.']:
        return 'dot'
    if any(x.endswith('outdir') for x in refs):
        return 'dir'
    return 'explicit'


def tname(t):
    return getattr(t, '_testMethodName', None) or str(t)


def all_tests(s):
    for t in s:
        if isinstance(t, unittest.TestSuite):
            for x in all_tests(t):
                yield x
        else:
            yield t


def load_and_run(ctx, script_file):
    """Imports the generated script from its file and runs its tests.
    Returns {test_name: 'ok'|'fail'|'error'} or raises."""
    n = getattr(ctx, '_modcount', 0) + 1
    ctx._modcount = n
    modname = '_gen_script_%d' % n
    spec = importlib.util.spec_from_file_location(modname, script_file)
    mod = importlib.util.module_from_spec(spec)
    sys.modules[modname] = mod
    saved_dont = sys.dont_write_bytecode
    sys.dont_write_bytecode = True
    saved_env = dict(os.environ)
    try:
        spec.loader.exec_module(mod)
        suite = unittest.defaultTestLoader.loadTestsFromModule(mod)
        names = [tname(t) for t in all_tests(suite)]   # run() drops them
        result = unittest.TestResult()
        suite.run(result)
    finally:
        os.environ.clear()
        os.environ.update(saved_env)
        sys.modules.pop(modname, None)
    res = {n: 'ok' for n in names}
    msgs = {}
    for t, tb in result.failures:
        res[tname(t)] = 'fail'
        msgs[tname(t)] = tb
    for t, tb in result.errors:
        # class-level failures (setUpClass) arrive as _ErrorHolder
        res[tname(t)] = 'error'
        msgs[tname(t)] = tb
    return res, msgs


def run_script_op(ctx, op):
    W, sim = ctx.W, ctx.sim
    if ctx.last_gen is None:
        ctx.events.append({'i': op['i'], 'op': 'run_script',
                           'outcome': 'no-script'})
        return
    gen = ctx.last_gen
    if op.get('fail_dir_gone'):
        # the directory for failure files has been cleaned away since the
        # test was generated (tmp reaper, another job's clean-up)
        import shutil
        shutil.rmtree(W.path('fail'), ignore_errors=True)
        ctx.stats['faults']['failure_directory_removed'] += 1
        ctx.nontrivial = True
    try:
        res, msgs = load_and_run(ctx, gen['script'])
        outcome = 'ran'
    except WatchdogTimeout:
        raise
    except BaseException as e:
        if isinstance(e, (KeyboardInterrupt,)):
            raise
        res, msgs = {}, {'<import>': repr(e)}
        outcome = 'error:%s' % type(e).__name__
    bad = sorted(k for k, v in res.items() if v != 'ok')
    ctx.events.append({'i': op['i'], 'op': 'run_script', 'outcome': outcome,
                       'results': sorted(res.items())})
    prog = sim.programs[gen['op']['command']]
    cls = text_class(ctx, prog)
    ctx.shape.append('R%s%s' % ('+' if not bad and outcome == 'ran' else '-',
                                len(res)))
    if not op.get('after_change'):
        # straight after generation (C11), or C12's baseline
        ctx.baseline_pass = (outcome == 'ran' and not bad and bool(res))
        if ctx.prop == 'C11':
            ctx.stats['checks']['script_runs'] += 1
            if outcome != 'ran' or bad or not res:
                which = ','.join(re.sub(r'\d+$', 'N', re.sub(
                    r'^test_(?!stdout|stderr|exit_code|no_exception)\w+',
                    'test_<file>', b)) for b in bad) or outcome
                detail = '\n'.join('%s: %s' % (k, v[-700:])
                                   for k, v in list(msgs.items())[:2])
                kinds = ','.join(sorted({
                    (re.findall(r'^(\w+(?:Error|Exception))', v, re.M)
                     or ['?'])[-1] for v in msgs.values()}))
                if single_run_tmpdir_case(ctx, gen, prog, bad):
                    which, kinds = 'single-run-output-mentions-TMPDIR', '-'
                violation(ctx, op, 'generated-test-passes',
                          '%s/%s%s' % (which, kinds,
                                       '/clock-moved' if 'clock' in op
                                       else ''),
                          'generated script does not pass straight after '
                          'generation: %r\n%s\nscript tail:\n%s'
                          % (sorted(res.items()), detail, gen['src'][-900:]))
        elif not ctx.baseline_pass:
            ctx.stats['abstain']['baseline_not_passing(C11 matter)'] += 1
        return
    # ---- C12: after the peer changed (or not)
    if not ctx.baseline_pass:
        return
    ch = getattr(ctx, 'change', None)
    if ch is None:
        return
    if ch['applied'] == 'abstain':
        return
    ctx.stats['checks']['reruns_after_change'] += 1
    ctx.states.add('%s|%s|%s' % (','.join(gen['tests']),
                                 ','.join(gen['exclusion_kinds']),
                                 ch['kind']))
    if ch['kind'] == 'none':
        if outcome != 'ran' or bad:
            violation(ctx, op, 'unchanged-still-passes',
                      '%s%s' % (cls, '/clock-moved' if 'clock' in op else ''),
                      'nothing changed (clock moved by %s s) but the test '
                      'now fails: %r\n%s' % (op.get('clock'), bad,
                                             '\n'.join(v[-500:] for v in
                                                       msgs.values())))
        return
    want_test = ch['test']
    if outcome != 'ran':
        return
    if want_test not in res:
        violation(ctx, op, 'change-has-a-test', ch['kind'],
                  'no test %s in generated script (tests: %r) for changed %s'
                  % (want_test, sorted(res), ch['what']))
        return
    if res[want_test] == 'ok':
        violation(ctx, op, 'change-noticed',
                  '%s/%s/%s' % (ch['kind'], ch.get('how', '-'),
                                '+'.join(gen['exclusion_kinds']) or 'noexcl'),
                  'the command now behaves differently (%s) but %s passes; '
                  'all results %r\nexclusions in script: %s'
                  % (ch['what'], want_test, sorted(res.items()),
                     re.findall(r'(?:patterns|substrings|removals) = \[.*?\]',
                                gen['src'], re.S)))


def single_run_tmpdir_case(ctx, gen, prog, bad):
    """Generated from a single run, and every failing test is for a stream
    or file whose content names the scratch directory gentest hands to the
    command as $TMPDIR (the generated test hands it a fresh one)."""
    if gen['op'].get('iterations') != 1 or not bad:
        return False
    tok = os.path.join(ctx.W.root, 'tmp', 'gt')
    out, err, code, files = program_texts(prog)
    mention = set()
    if tok in out:
        mention.add('test_stdout')
    if tok in err:
        mention.add('test_stderr')
    for f in files:
        if tok in f.get('text', ''):
            t = script_test_for(gen['src'], f['path'])
            if t:
                mention.add(t)
    return set(bad) <= mention


def run_peer_change(ctx, op):
    """The peer changes behaviour in exactly one way."""
    sim = ctx.sim
    ctx.change = {'kind': op['kind'], 'applied': 'abstain'}
    gen = ctx.last_gen
    if gen is None or not ctx.baseline_pass:
        return
    gop = gen['op']
    prog = sim.programs[op['command']]
    out, err, code, files = program_texts(prog)
    start = gen['start']
    ex = Excuse([ctx.ident[k] for k in ('host', 'ip', 'user', 'cwd', 'home',
                                         'tmpdir')],
                datetime.datetime.fromisoformat(ctx.sim.cfg['clock0']),
                sim.clock.now())
    k = op['kind']
    ch = ctx.change
    if k == 'none':
        ch['applied'] = 'yes'
        ch['what'] = 'nothing'
        ctx.events.append({'i': op['i'], 'op': 'peer_change', 'kind': k})
        return
    if k == 'exit':
        new = op['code'] if op['code'] != code else code + 1
        for e in prog['effects']:
            if e['t'] == 'exit':
                e['code'] = new
        ch.update(applied='yes', test='test_exit_code',
                  what='exit status %d -> %d' % (code, new))
        ctx.stats['faults']['peer_exit_status_changed'] += 1
    elif k in ('out', 'err'):
        if (k == 'out' and gop['no_stdout']) or (k == 'err'
                                                 and gop['no_stderr']):
            ctx.stats['abstain']['stream_not_checked_by_request'] += 1
            return
        effs = [e for e in prog['effects'] if e['t'] == k]
        text = out if k == 'out' else err
        new = change_text(ctx, op, text, ex)
        if new is None:
            return
        if effs:
            effs[0]['text'] = new
            for e in effs[1:]:
                e['text'] = ''
        else:
            prog['effects'].insert(0, {'t': k, 'text': new})
        ch.update(applied='yes', how=op['how'],
                  test='test_stdout' if k == 'out' else 'test_stderr',
                  what='%s %r -> %r' % (k, ctx.W.scrub(text)[:200],
                                        ctx.W.scrub(new)[:200]))
        ctx.stats['faults']['peer_%s_%s' % (k, op['how'])] += 1
    elif k in ('file', 'file_missing'):
        if not files:
            return
        f = files[op['file'] % len(files)]
        if not covered(gop['reference_files'], f['path']):
            ctx.stats['abstain']['file_not_named_as_output'] += 1
            return
        base = os.path.basename(f['path'])
        # "the test for that file" is the method of the generated script
        # whose assertion names the file as its actual; the method *name* is
        # gentest's choice (numeric qualifiers for clashes) and not part of
        # the statement
        test = script_test_for(gen['src'], f['path'])
        if test is None:
            test = 'test_' + ''.join(c if c.isalnum() else '_' for c in base)
            if sum(1 for g in files
                   if os.path.basename(g['path']) == base) > 1:
                ctx.stats['abstain']['ambiguous_test_name_for_file'] += 1
                return
        else:
            ctx.stats['probes']['file_test_identified_from_script'] += 1
        if k == 'file_missing':
            prog['effects'].remove(f)
            ch.update(applied='yes', test=test,
                      what='file %s no longer written' % f['path'])
            ctx.stats['faults']['peer_file_no_longer_written'] += 1
        elif 'hex' in f:
            b = bytearray(bytes.fromhex(f['hex']))
            if not b:
                return
            p = int(op['pos'] * len(b)) % len(b)
            enc = script_text_encoding(gen['src'], f['path'])
            if enc is not None:
                # gentest decided these bytes are text in encoding enc (its
                # detector's call): the test compares lines, and a line
                # that holds an identity string or a current date is
                # excusable like any other text line
                try:
                    t = bytes(b).decode(enc)
                    before_p = bytes(b[:p]).decode(enc, 'ignore')
                    ln = t.split('\n')[before_p.count('\n')]
                    if not ex.must_check(ln, t):
                        ctx.stats['abstain'][
                            'byte_change_on_excusable_text_line'] += 1
                        return
                except Exception:
                    ctx.stats['abstain']['byte_change_undecodable'] += 1
                    return
            b[p] ^= 0x01
            f['hex'] = bytes(b).hex()
            ch.update(applied='yes', how='alter_byte', test=test,
                      what='byte %d of %s flipped' % (p, f['path']))
            ctx.stats['faults']['peer_binary_byte_flipped'] += 1
        else:
            new = change_text(ctx, op, f['text'], ex)
            if new is None:
                return
            ch.update(applied='yes', how=op['how'], test=test,
                      what='file %s %r -> %r' % (
                          f['path'], ctx.W.scrub(f['text'])[:200],
                          ctx.W.scrub(new)[:200]))
            f['text'] = new
            ctx.stats['faults']['peer_file_' + op['how']] += 1
    ctx.nontrivial = True
    ctx.events.append({'i': op['i'], 'op': 'peer_change', 'kind': k,
                       'what': ctx.W.scrub(ch.get('what'))})


def script_test_for(src, path):
    """Name of the test method in the generated script whose assertion has
    this output file (relative to cwd, or $TMPDIR/...) as its actual."""
    if path.startswith('$TMPDIR/'):
        lit = 'tmpdir, %r)' % path[len('$TMPDIR/'):]
    else:
        lit = 'cwd, %r)' % path
    found = None
    for m in re.finditer(r'^    def (test_\w+)\(self\):\n((?:(?!    def )'
                         r'(?!if __name__).*\n)*)', src, re.M):
        body = m.group(2)
        k = body.find('Correct(')
        if k >= 0 and body[k:].split(',\n')[0].rstrip().endswith(lit):
            if found is not None and found != m.group(1):
                return None         # two differently named tests: ambiguous
            found = m.group(1)
    return found


def script_text_encoding(src, path):
    """Encoding given in the generated assertTextFileCorrect for this
    output file, 'utf-8' if it is a text assertion without one, None if the
    file is checked as binary (or has no test)."""
    if path.startswith('$TMPDIR/'):
        lit = 'tmpdir, %r)' % path[len('$TMPDIR/'):]
    else:
        lit = 'cwd, %r)' % path
    for m in re.finditer(r'^    def (test_\w+)\(self\):\n((?:(?!    def )'
                         r'(?!if __name__).*\n)*)', src, re.M):
        body = m.group(2)
        k = body.find('Correct(')
        if k >= 0 and body[k:].split(',\n')[0].rstrip().endswith(lit):
            if 'assertTextFileCorrect' not in body:
                return None
            e = re.search(r"encoding='([^']+)'", body)
            return e.group(1) if e else 'utf-8'
    return None


def covered(refs, path):
    """Is this output file among those the user asked gentest to check?
    (no names = everything under the working directory; $TMPDIR is always
    watched)"""
    import fnmatch
    if path.startswith('$TMPDIR/'):
        return True
    if not refs:
        return True
    for r in refs:
        if r == '.' or r == path:
            return True
        if ('*' in r or '?' in r) and fnmatch.fnmatch(path, r):
            return True
        if path.startswith(r.rstrip('/') + '/'):
            return True
    return False


DATEISH = re.compile(r'^[\d/\-\.: tTzZ+,]+$')


def change_text(ctx, op, text, ex):
    """One line altered / added / removed, only where M-excuse says the
    line must be checked.  Returns new text or None (abstain)."""
    lines = text.split('\n')
    trailing = text.endswith('\n')
    if trailing:
        lines = lines[:-1]
    how = op['how']
    if how == 'alter_byte':
        how = 'alter_char'
    plaus = ex.plausible_dates(text)
    if how == 'add_line':
        i = int(op['line'] * (len(lines) + 1))
        lines.insert(i, op['new_line'])
    else:
        cands = [i for i, l in enumerate(lines)
                 if l.strip() and ex.must_check(l, text)
                 and not (plaus and DATEISH.match(l.strip()))]
        if not cands:
            ctx.stats['abstain']['no_must_check_line'] += 1
            return None
        i = cands[int(op['line'] * len(cands)) % len(cands)]
        pref = [c for c in cands if op.get('prefer')
                and op['prefer'] in lines[c]]
        if pref:
            i = pref[0]
        if how == 'remove_line':
            del lines[i]
        elif how == 'join_lines':
            # the newline after line i becomes a separator-like character
            # (vertical tab, form feed, NEL...): one line fewer
            if i + 1 >= len(lines) or (i + 1) not in cands:
                ctx.stats['abstain']['no_adjacent_must_check_lines'] += 1
                return None
            new_l = lines[i] + op.get('sep', '\x0b') + lines[i + 1]
            if not ex.must_check(new_l, '\n'.join(lines)):
                ctx.stats['abstain']['changed_line_becomes_excusable'] += 1
                return None
            lines[i:i + 2] = [new_l]
            ctx.stats['faults']['peer_newline_became_separator_char'] += 1
        else:
            l = lines[i]
            p = int(op['pos'] * len(l)) % len(l)
            c = op['char'] if l[p] != op['char'] else 'W'
            new_l = l[:p] + c + l[p + 1:]
            if not new_l.strip() or new_l.strip() == l.strip():
                ctx.stats['abstain']['change_is_whitespace_only'] += 1
                return None
            if not ex.must_check(new_l, '\n'.join(lines)):
                ctx.stats['abstain']['changed_line_becomes_excusable'] += 1
                return None
            lines[i] = new_l
    new = '\n'.join(lines) + ('\n' if trailing and lines else '')
    if new.replace('\r\n', '\n').replace('\r', '\n').split('\n') == \
            text.replace('\r\n', '\n').replace('\r', '\n').split('\n'):
        ctx.stats['abstain']['change_invisible_as_lines'] += 1
        return None
    if ex.has_any_excusable(text):
        ctx.stats['probes']['change_next_to_excusable_lines'] += 1
    return new


# --------------------------------------------------------------------------
# typed shrinkers
# --------------------------------------------------------------------------

def shrink(plan):
    cfg = plan['config']
    for name, prog in cfg['programs'].items():
        effs = prog['effects']
        for i, e in enumerate(effs):
            if e['t'] in ('out', 'err', 'write') and 'text' in e:
                ls = e['text'].splitlines(True)
                for j in range(len(ls)):
                    cand = copy.deepcopy(plan)
                    cand['config']['programs'][name]['effects'][i]['text'] = \
                        ''.join(ls[:j] + ls[j + 1:])
                    yield cand
                for j, l in enumerate(ls):
                    toks = l.split(' ')
                    if len(toks) > 1:
                        for t in range(len(toks)):
                            cand = copy.deepcopy(plan)
                            nl = ' '.join(toks[:t] + toks[t + 1:])
                            cand['config']['programs'][name]['effects'][i][
                                'text'] = ''.join(ls[:j] + [nl] + ls[j + 1:])
                            yield cand
        for i, e in enumerate(effs):
            if e['t'] in ('err', 'write'):
                cand = copy.deepcopy(plan)
                del cand['config']['programs'][name]['effects'][i]
                yield cand
    if cfg.get('bystanders'):
        for i in range(len(cfg['bystanders'])):
            cand = copy.deepcopy(plan)
            del cand['config']['bystanders'][i]
            yield cand
    for idx, op in enumerate(plan['ops']):
        if op['op'] == 'gentest':
            for k, v in (('iterations', 1), ('no_stdout', False),
                         ('no_stderr', False), ('non_zero_exit', False),
                         ('script', 'test_x.py'), ('reference_files', [])):
                if op.get(k) != v:
                    cand = copy.deepcopy(plan)
                    cand['ops'][idx][k] = v
                    yield cand
            for k in ('clock_during', 'same_tick'):
                if k in op:
                    cand = copy.deepcopy(plan)
                    del cand['ops'][idx][k]
                    yield cand
