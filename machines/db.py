"""
M-DB: database discovery / verification with a rogue writer (C08).

System (real code): discover_db_table, verify_db_table, DatabaseHandler on
sqlite3 ':memory:' obtained through tdda's own database_connection_sqlite
(so REGEXP is tdda's callback); the .tdda file is written with to_json() into
the world (the API only accepts a path).
History: discover -> (rogue single-row write) -> verify; rows written before
discovery must be absorbed.
"""

import collections
import copy
import io
import json
import os
import re
import sys
import types

from sim.world import World
from sim.watchdog import WatchdogTimeout

NAME = 'M-DB'
PROPS = ('C08',)
TIERS = {'C08': {'quick': {'runs': 8000, 'wall_cap': 240},
                 'thorough': {'runs': 100000, 'wall_cap': 1500}}}
LEVELS = {'C08': 'exploration'}
STATES_MEASURE = ('distinct (column type set, discovered constraint-kind '
                  'set, rogue kind, position of the rogue write in the '
                  'history) tuples')
COMPONENTS = {
    'real': ['tdda.constraints.discover_db_table / verify_db_table',
             'tdda.constraints.db.drivers (SQLDatabaseHandler, '
             'database_connection_sqlite incl. the REGEXP callback)',
             'tdda.rexpy', 'sqlite3 in-memory database',
             '.tdda file on a RAM filesystem'],
    'stub': ['hostname / user for creation metadata',
             'the "other writer" is the simulator (rogue inserts between '
             'discovery and verification)'],
}
RULES = {'C08': 'each run = a table over integer/real/text/varchar/boolean/'
                'datetime columns with seeded rows (quotes, backslashes, %, '
                'unicode, empty strings, all-null columns, empty tables), '
                'then a history of insert (before discovery: must be '
                'absorbed) / discover(rex on/off) / verify / rogue single-row '
                'insert breaking exactly one discovered constraint / verify; then '
                'optionally the same table name re-created with re-declared '
                'column types (drop+create or another database) and the '
                'history again; '
                'non-trivial = a rogue write or rex discovery or awkward '
                'text; distinct = distinct (column types, history, rogue '
                'kind, verdict) shapes'}
ASSUMPTIONS = {'C08': ['only SQLite is exercised', 'table names are plain '
                       'identifiers (tdda does not quote them); column names '
                       'exclude the double quote', 'datetime values are '
                       'stored as "YYYY-MM-DD HH:MM:SS" text',
                       'after a rogue write only the targeted constraint\'s '
                       'verdict is constrained']}

COLNAMES = ['a', 'b', 'c', 'Name', 'mixedCase', 'two words', 'select',
            'order', 'naïve', 'x_1', 'group']
TEXTS = ['alpha', 'beta', "it's", 'say "hi"', 'back\\slash', '100%', 'a_b',
         'café', '数据', '', ' lead', 'x', 'yy', "''", "O'Brien", 'tab\there',
         'A-1', 'B-22', '12', "don't %s", 'ok']


def gen_value(r, t):
    if t == 'integer':
        return r.pick([0, 1, -1, r.randint(-50, 50), r.randint(-10 ** 9,
                                                               10 ** 9)])
    if t == 'real':
        return r.pick([0.0, 0.5, -2.25, round(r.uniform(-100, 100), 3),
                       1e10, 3.0])
    if t in ('text', 'varchar'):
        s = r.pick(TEXTS)
        return s if r.chance(0.6) else s + str(r.randint(0, 99))
    if t == 'boolean':
        return r.pick([0, 1])
    if r.chance(0.2):
        # a wall-clock time that does not exist in some local zones (the
        # hour skipped when clocks go forward): last Sunday of March 01:xx
        # (Europe/London), second Sunday of March 02:xx (US)
        import datetime as _dt
        y = r.randint(1990, 2037)
        if r.chance(0.5):
            d = _dt.date(y, 3, 31)
            d -= _dt.timedelta(days=(d.weekday() + 1) % 7)
            h = 1
        else:
            d = _dt.date(y, 3, 8)
            d += _dt.timedelta(days=(6 - d.weekday()) % 7)
            h = 2
        return '%04d-%02d-%02d %02d:%02d:%02d' % (
            d.year, d.month, d.day, h, r.randint(0, 59), r.randint(0, 59))
    return '%04d-%02d-%02d %02d:%02d:%02d' % (
        r.randint(1990, 2040), r.randint(1, 12), r.randint(1, 28),
        r.randint(0, 23), r.randint(0, 59), r.randint(0, 59))


def gen_rows(r, cols, n):
    rows = []
    allnull = {c['name'] for c in cols if r.chance(0.08)}
    for _ in range(n):
        row = []
        for c in cols:
            if c['name'] in allnull or r.chance(0.12):
                row.append(None)
            else:
                row.append(gen_value(r, c['type']))
        rows.append(row)
    return rows


def gen_plan(prop, r, tier, run):
    ncols = r.randint(1, 4)
    names = r.sample(COLNAMES, ncols)
    cols = [{'name': names[i],
             'type': r.weighted([(3, 'integer'), (2, 'real'), (4, 'text'),
                                 (2, 'varchar'), (1, 'boolean'),
                                 (1.5, 'datetime')])}
            for i in range(ncols)]
    n = r.weighted([(1, 0), (1, 1), (6, r.randint(2, 10))])
    cfg = {'table': r.pick(['t', 'elements', 'T1']), 'columns': cols,
           'rows': gen_rows(r, cols, n)}
    # the process's local time zone (POSIX TZ strings: no zone database
    # needed)
    cfg['tz'] = r.weighted([(7, None), (1.5, 'GMT0BST,M3.5.0/1,M10.5.0'),
                            (1.5, 'EST5EDT,M3.2.0,M11.1.0')])
    if r.chance(0.4):
        # a database file shared with another writer on its own connection
        cfg['db_file'] = True
        cfg['wal'] = r.chance(0.6)
        # the user's home directory holds a default connection file for
        # sqlite that names some other database
        cfg['conn_file_in_home'] = r.chance(0.4)
    ops = []
    if r.chance(0.3):
        ops.append({'op': 'insert', 'rows': gen_rows(r, cols,
                                                     r.randint(1, 3)),
                    'commit': r.chance(0.7)})
    rex = r.chance(0.5)
    if r.chance(0.25):
        # the database's owner ran ANALYZE at some point (statistics tables
        # exist and go stale with every later write)
        ops.append({'op': 'analyze'})
    ops.append({'op': 'discover', 'rex': rex})
    ops.append({'op': 'verify'})
    if r.chance(0.1):
        ops.append({'op': 'analyze'})
    for _ in range(r.weighted([(2, 0), (5, 1), (2, 2), (1, 3)])):
        k = r.weighted([(7, 'rogue'), (1, 'rediscover'), (0.5, 'delete_all')])
        if k == 'rogue':
            if r.chance(0.3):
                # an earlier call on tdda's connection goes wrong part-way
                ops.append({'op': 'failed_call',
                            'how': r.pick(['missing_tdda', 'missing_table',
                                           'bad_tdda'])})
            ops.append({'op': 'rogue_insert', 'pick': r.random(),
                        'pick2': r.random(), 'commit': r.chance(0.65),
                        'other_conn': r.chance(0.6)})
            ops.append({'op': 'verify'})
        elif k == 'rediscover':
            ops.append({'op': 'discover', 'rex': r.chance(0.5)})
            ops.append({'op': 'verify'})
        else:
            ops.append({'op': 'delete_all'})
            ops.append({'op': 'discover', 'rex': r.chance(0.5)})
            ops.append({'op': 'verify'})
    if r.chance(0.3):
        # a second table of the same name with the same column names but
        # freshly drawn declared types: either the table is dropped and
        # re-created, or the session moves to another database
        ops.extend(gen_recreate(r, cols))
    if cfg.get('db_file'):
        for op in ops:
            if op['op'] == 'verify' and r.chance(0.4):
                # also through the command-line entry point for database
                # tables (its own connection to the database file)
                op['cli_entry'] = True
                op['epsilon'] = r.pick([None, None, '0.5', '0.01'])
    for i, op in enumerate(ops):
        op['i'] = i
    return {'config': cfg, 'ops': ops}


def gen_recreate(r, cols):
    cols2 = [{'name': c['name'],
              'type': r.weighted([(3, 'integer'), (2, 'real'), (3, 'text'),
                                  (1, 'varchar'), (2, 'boolean'),
                                  (1.5, 'datetime')])} for c in cols]
    ops = [{'op': 'recreate', 'how': r.pick(['drop', 'newdb']),
            'columns': cols2,
            'rows': gen_rows(r, cols2, r.randint(1, 8))},
           {'op': 'discover', 'rex': r.chance(0.4)},
           {'op': 'verify'}]
    for _ in range(r.weighted([(1, 0), (4, 1), (2, 2)])):
        ops.append({'op': 'rogue_insert', 'pick': r.random(),
                    'pick2': r.random(), 'commit': r.chance(0.65)})
        ops.append({'op': 'verify'})
    return ops


# --------------------------------------------------------------------------

class Ctx(object):
    pass


def q(name):
    return '"%s"' % name


def exc_tag(e):
    import traceback
    fn = '?'
    for fr in traceback.extract_tb(e.__traceback__):
        if '/tdda/' in fr.filename:
            fn = fr.name
    return '%s@%s' % (type(e).__name__, fn)


def violation(ctx, op, clause, tag, detail):
    sig = '%s/%s/%s' % (ctx.prop, clause, tag)
    ctx.violations.append({'clause': clause, 'signature': sig,
                           'detail': ctx.W.scrub(detail)[:4000],
                           'at_op': op['i']})


def table_dump(ctx):
    cur = ctx.conn.cursor()
    cur.execute('SELECT * FROM %s' % ctx.table)
    return [list(r) for r in cur.fetchall()][:15]


def execute(plan):
    from tdda.constraints import base
    from tdda.constraints.db import drivers
    from tdda.rexpy import rexpy
    ctx = Ctx()
    ctx.prop = plan['property']
    ctx.events = []
    ctx.violations = []
    ctx.stats = {'faults': collections.Counter(),
                 'probes': collections.Counter(),
                 'abstain': collections.Counter(),
                 'checks': collections.Counter()}
    ctx.states = set()
    ctx.shape = []
    ctx.nontrivial = False
    cfg = plan['config']
    saved = {'socket': base.socket, 'getpass': base.getpass,
             'stdout': sys.stdout, 'stderr': sys.stderr}
    with World() as W:
        ctx.W = W
        base.socket = types.SimpleNamespace(gethostname=lambda: 'simhost')
        base.getpass = types.SimpleNamespace(getuser=lambda: 'simuser')
        rexpy.memo.clear()
        sys.stdout = io.StringIO()
        sys.stderr = io.StringIO()
        conn = None
        saved_tz = os.environ.get('TZ')
        if cfg.get('tz'):
            import time as _time
            os.environ['TZ'] = cfg['tz']
            _time.tzset()
            ctx.stats['probes']['local_zone_with_daylight_saving'] += 1
        try:
            dbname = ':memory:'
            ctx.wconn = None
            if cfg.get('db_file'):
                import sqlite3
                dbname = W.path('data', 'shared.sqlite3')
                ctx.wconn = sqlite3.connect(dbname, timeout=0.05)
                if cfg.get('wal'):
                    ctx.wconn.execute('PRAGMA journal_mode=WAL')
                ctx.stats['probes']['database_file_with_second_writer'] += 1
                if cfg.get('conn_file_in_home'):
                    other = W.path('data', 'other.sqlite3')
                    oc = sqlite3.connect(other)
                    oc.execute('CREATE TABLE %s (%s)' % (
                        cfg['table'], ', '.join('%s %s' % (q(c['name']),
                                                           c['type'])
                                                for c in cfg['columns'])))
                    oc.commit()
                    oc.close()
                    with io.open(W.path('home', '.tdda_db_conn_sqlite'),
                                 'w') as f:
                        f.write(json.dumps({'dbtype': 'sqlite',
                                            'db': other}))
                    ctx.stats['faults'][
                        'default_connection_file_names_other_db'] += 1
            conn = drivers.database_connection_sqlite(None, None, dbname,
                                                      None, None)
            ctx.conn = conn
            ctx.db = drivers.DBConnector(conn, None, host=None, port=None,
                                         database=dbname, user=None)
            ctx.table = cfg['table']
            ctx.cols = cfg['columns']
            cur = conn.cursor()
            cur.execute('CREATE TABLE %s (%s)' % (ctx.table, ', '.join(
                '%s %s' % (q(c['name']), c['type']) for c in ctx.cols)))
            insert_rows(ctx, cfg['rows'])
            ctx.cs = None
            ctx.cs_path = W.path('data', 'table.tdda')
            ctx.pending = False
            ctx.dbname = dbname
            ctx.clean = False       # table unchanged since discovery?
            ctx.rogue = None
            import sqlite3
            for op in plan['ops']:
                try:
                    OPS[op['op']](ctx, op)
                except sqlite3.OperationalError as e:
                    if 'locked' not in str(e):
                        raise
                    # one of the simulator's own writes could not go ahead
                    # (a lock is being held): the history ends here
                    ctx.stats['abstain']['simulator_write_blocked'] += 1
                    ctx.events.append({'i': op['i'], 'op': op['op'],
                                       'outcome': 'blocked'})
                    break
        finally:
            if getattr(ctx, 'wconn', None) is not None:
                try:
                    ctx.wconn.close()
                except Exception:
                    pass
            if getattr(ctx, 'conn', None) is not None:
                ctx.conn.close()
            elif conn is not None:
                conn.close()
            if cfg.get('tz'):
                import time as _time
                if saved_tz is None:
                    os.environ.pop('TZ', None)
                else:
                    os.environ['TZ'] = saved_tz
                _time.tzset()
            sys.stdout = saved['stdout']
            sys.stderr = saved['stderr']
            base.socket = saved['socket']
            base.getpass = saved['getpass']
            rexpy.memo.clear()
    return {'events': ctx.events, 'violations': ctx.violations,
            'stats': {k: dict(v) for k, v in ctx.stats.items()},
            'shape': '|'.join(ctx.shape), 'nontrivial': ctx.nontrivial,
            'states': sorted(ctx.states),
            'interleaving': ''.join(op['op'][0] for op in plan['ops']),
            'sim_time': 0}


def insert_rows(ctx, rows, commit=True, other=False):
    if other and ctx.wconn is not None:
        # the other writer, on its own connection, always commits
        import sqlite3
        ph = ', '.join('?' for _ in ctx.cols)
        try:
            for row in rows:
                ctx.wconn.execute('INSERT INTO %s VALUES (%s)'
                                  % (ctx.table, ph), row)
            ctx.wconn.commit()
        except sqlite3.OperationalError:
            ctx.wconn.rollback()
            ctx.stats['abstain']['other_writer_blocked'] += 1
            return False
        ctx.stats['faults']['write_by_other_connection'] += 1
        return True
    cur = ctx.conn.cursor()
    ph = ', '.join('?' for _ in ctx.cols)
    for row in rows:
        cur.execute('INSERT INTO %s VALUES (%s)' % (ctx.table, ph), row)
    if commit:
        ctx.conn.commit()
        ctx.pending = False
    elif rows:
        ctx.pending = True
        # the writer's transaction is still open on the connection that is
        # handed to tdda: its rows are part of the table as that connection
        # sees it
        ctx.stats['faults']['write_left_uncommitted'] += 1
    return True


def op_insert(ctx, op):
    insert_rows(ctx, op['rows'], commit=op.get('commit', True))
    if ctx.cs is not None:
        ctx.clean = False
    ctx.stats['probes']['rows_written_before_discovery'] += 1
    ctx.events.append({'i': op['i'], 'op': 'insert'})


def op_delete_all(ctx, op):
    ctx.conn.cursor().execute('DELETE FROM %s' % ctx.table)
    ctx.conn.commit()
    ctx.clean = False
    ctx.rogue = None
    ctx.stats['probes']['table_emptied'] += 1
    ctx.events.append({'i': op['i'], 'op': 'delete_all'})


def op_recreate(ctx, op):
    from tdda.constraints.db import drivers
    if op['how'] == 'newdb' and ctx.wconn is None:
        ctx.conn.close()
        ctx.conn = drivers.database_connection_sqlite(None, None, ':memory:',
                                                      None, None)
        ctx.db = drivers.DBConnector(ctx.conn, None, host=None, port=None,
                                     database=':memory:', user=None)
    else:
        ctx.conn.cursor().execute('DROP TABLE %s' % ctx.table)
        ctx.conn.commit()
    changed = sorted('%s>%s' % (a['type'], b['type'])
                     for a, b in zip(ctx.cols, op['columns'])
                     if a['type'] != b['type'])
    ctx.cols = op['columns']
    ctx.conn.cursor().execute('CREATE TABLE %s (%s)' % (ctx.table, ', '.join(
        '%s %s' % (q(c['name']), c['type']) for c in ctx.cols)))
    insert_rows(ctx, op['rows'])
    ctx.cs = None
    ctx.clean = False
    ctx.rogue = None
    if changed:
        ctx.nontrivial = True
        ctx.stats['probes']['same_table_name_other_declared_types'] += 1
    ctx.stats['probes']['recreate_' + op['how']] += 1
    ctx.shape.append('X%s%d' % (op['how'][0], len(changed)))
    ctx.events.append({'i': op['i'], 'op': 'recreate', 'how': op['how'],
                       'changed': changed})


def op_failed_call(ctx, op):
    """A call on tdda's connection that goes wrong part-way; the caller
    catches the error and carries on with the same connection."""
    from tdda.constraints import verify_db_table, discover_db_table
    try:
        if op['how'] == 'missing_tdda':
            verify_db_table('sqlite', ctx.db, ctx.table,
                            ctx.W.path('data', 'no-such.tdda'), testing=True)
        elif op['how'] == 'bad_tdda':
            p = ctx.W.path('data', 'broken.tdda')
            with io.open(p, 'w') as f:
                f.write('{"fields": {"a": {"min": ')
            verify_db_table('sqlite', ctx.db, ctx.table, p, testing=True)
        else:
            discover_db_table('sqlite', ctx.db, 'no_such_table')
        out = 'ok'
    except WatchdogTimeout:
        raise
    except BaseException as e:
        if isinstance(e, KeyboardInterrupt):
            raise
        out = type(e).__name__
    ctx.stats['faults']['earlier_call_failed_part_way'] += 1
    ctx.shape.append('F')
    ctx.events.append({'i': op['i'], 'op': 'failed_call', 'how': op['how'],
                       'outcome': out})


def text_class(ctx):
    tags = set()
    for row in table_dump(ctx):
        for v in row:
            if isinstance(v, str):
                if "'" in v:
                    tags.add('quote')
                if '\\' in v:
                    tags.add('backslash')
                if v == '':
                    tags.add('empty')
                if any(ord(c) > 127 for c in v):
                    tags.add('unicode')
    return '+'.join(sorted(tags)) or 'plain'


def op_discover(ctx, op):
    from tdda.constraints import discover_db_table
    try:
        cs = discover_db_table('sqlite', ctx.db, ctx.table, inc_rex=op['rex'])
        outcome = 'ok'
    except WatchdogTimeout:
        raise
    except BaseException as e:
        if isinstance(e, KeyboardInterrupt):
            raise
        cs, outcome, exc = None, 'exc', e
    ctx.cs = None
    ctx.rogue = None
    if op['rex']:
        ctx.nontrivial = True
    ctx.shape.append('D%s%s' % ('r' if op['rex'] else '', outcome[0]))
    ctx.stats['checks']['discoveries'] += 1
    if outcome == 'exc':
        ctx.events.append({'i': op['i'], 'op': 'discover',
                           'outcome': exc_tag(exc)})
        violation(ctx, op, 'discover-raises',
                  '%s/%s' % (exc_tag(exc), 'rex' if op['rex'] else 'norex'),
                  'discover_db_table(inc_rex=%s) raised %r\ncolumns %r\n'
                  'rows %r' % (op['rex'], exc, ctx.cols, table_dump(ctx)))
        return
    if cs is None:
        ctx.events.append({'i': op['i'], 'op': 'discover',
                           'outcome': 'none'})
        return
    text = cs.to_json()
    with io.open(ctx.cs_path, 'w', encoding='utf-8') as f:
        f.write(text)
    ctx.cs = json.loads(text)
    ctx.clean = True
    ctx.rex = op['rex']
    ctx.events.append({'i': op['i'], 'op': 'discover', 'outcome': 'ok',
                       'fields': ctx.cs['fields']})


def op_verify(ctx, op):
    from tdda.constraints import verify_db_table
    if ctx.cs is None:
        ctx.events.append({'i': op['i'], 'op': 'verify', 'outcome': 'no-cs'})
        return
    try:
        v = verify_db_table('sqlite', ctx.db, ctx.table, ctx.cs_path,
                            testing=True)
        outcome = 'ok'
    except WatchdogTimeout:
        raise
    except BaseException as e:
        if isinstance(e, KeyboardInterrupt):
            raise
        v, outcome, exc = None, 'exc', e
    vmap = None
    if v is not None:
        vmap = {f: {k: (None if s is None else bool(s))
                    for k, s in fv.items()} for f, fv in v.fields.items()}
    ctx.events.append({'i': op['i'], 'op': 'verify', 'outcome': outcome
                       if outcome == 'ok' else exc_tag(exc), 'map': vmap})
    if op.get('cli_entry') and ctx.wconn is not None and not ctx.pending \
            and outcome == 'ok':
        cli_entry_check(ctx, op, v)
    ctx.shape.append('V%s%s' % (outcome[0], 'c' if ctx.clean else (
        'R' + ctx.rogue['kind'] if ctx.rogue else 'd')))
    tcls = text_class(ctx)
    if tcls != 'plain':
        ctx.nontrivial = True
    if ctx.clean:
        ctx.stats['checks']['closure_verifications'] += 1
        if outcome == 'exc':
            violation(ctx, op, 'verify-raises',
                      '%s/%s' % (exc_tag(exc), 'rex' if ctx.rex
                                 else 'norex'),
                      'verify_db_table raised %r on the table its '
                      'constraints were discovered from\nconstraints %s\n'
                      'rows %r' % (exc, json.dumps(ctx.cs['fields'],
                                                   ensure_ascii=False)[:1500],
                                   table_dump(ctx)))
            return
        if v.failures:
            bad = sorted((f, k) for f, m in vmap.items()
                         for k, s in m.items() if s is False)
            kinds = sorted({'%s:%s' % (coltype(ctx, f), k) for f, k in bad})
            violation(ctx, op, 'closure', '+'.join(kinds),
                      'constraints discovered from the table fail on it: '
                      '%r\nconstraints %s\nrows %r'
                      % (bad, json.dumps(ctx.cs['fields'],
                                         ensure_ascii=False)[:1500],
                         table_dump(ctx)))
        return
    if ctx.rogue is None:
        return
    # after a rogue single-row write
    rg = ctx.rogue
    ctx.stats['checks']['rogue_verifications'] += 1
    ctx.states.add('%s|%s|%s' % (sorted({c['type'] for c in ctx.cols}),
                                 rg['kind'], ctx.rex))
    if outcome == 'exc':
        violation(ctx, op, 'verify-raises-after-write',
                  '%s/%s' % (exc_tag(exc), rg['kind']),
                  'verify_db_table raised %r after inserting %r'
                  % (exc, rg['row']))
        return
    got = vmap.get(rg['field'], {}).get(rg['kind'])
    if got is not False:
        violation(ctx, op, 'violating-row-noticed',
                  '%s:%s' % (coltype(ctx, rg['field']), rg['kind']),
                  'row %r breaks %s %s=%r but verification reports %r\n'
                  'verdicts %r\nrows %r'
                  % (rg['row'], rg['field'], rg['kind'], rg['value'], got,
                     vmap.get(rg['field']), table_dump(ctx)))


def cli_entry_check(ctx, op, v_api):
    """`tdda verify sqlite:TABLE FILE -db DB [--epsilon E]` in this process
    reports the same counts as the library call with the same options."""
    from tdda.constraints import verify_db_table
    from tdda.constraints.db.verify import DatabaseVerifier
    eps = op.get('epsilon')
    argv = ['tdda-verify', 'sqlite:%s' % ctx.table, ctx.cs_path,
            '-db', ctx.dbname]
    if eps:
        argv += ['--epsilon', eps]
    out = io.StringIO()
    saved = sys.stdout
    sys.stdout = out
    try:
        DatabaseVerifier(argv).verify()
        res = 'ok'
    except WatchdogTimeout:
        raise
    except BaseException as e:
        if isinstance(e, KeyboardInterrupt):
            raise
        res = exc_tag(e)
    finally:
        sys.stdout = saved
    ctx.stats['checks']['cli_entry_verifications'] += 1
    text = out.getvalue()
    m1 = re.search(r'Constraints passing: (\d+)', text)
    m2 = re.search(r'Constraints failing: (\d+)', text)
    got = (int(m1.group(1)), int(m2.group(1))) if m1 and m2 else res
    if eps:
        try:
            v2 = verify_db_table('sqlite', ctx.db, ctx.table, ctx.cs_path,
                                 testing=True, epsilon=float(eps))
            want = (v2.passes, v2.failures)
        except Exception:
            ctx.stats['abstain']['library_verify_with_epsilon_raises'] += 1
            return
    else:
        want = (v_api.passes, v_api.failures)
    ctx.events.append({'i': op['i'], 'op': 'verify-cli-entry',
                       'epsilon': eps, 'got': got})
    if got != want:
        violation(ctx, op, 'cli-entry-same-counts',
                  'epsilon' if eps else 'no-epsilon',
                  'tdda verify %s printed %r, verify_db_table with the same '
                  'options gives %r' % (' '.join(argv[1:2] + argv[3:]),
                                        got, want))


def coltype(ctx, name):
    for c in ctx.cols:
        if c['name'] == name:
            return c['type']
    return '?'


def op_rogue_insert(ctx, op):
    """Exactly one row that breaks exactly one discovered constraint."""
    ctx.rogue = None
    if ctx.cs is None:
        return
    cands = []
    for f, cons in ctx.cs['fields'].items():
        for k, v in cons.items():
            if k in ('min', 'max', 'min_length', 'max_length',
                     'allowed_values', 'no_duplicates', 'max_nulls', 'rex',
                     'sign'):
                cands.append((f, k, v))
    cands.sort(key=lambda x: (x[0], x[1]))
    if not cands:
        ctx.stats['abstain']['no_breakable_constraint'] += 1
        return
    start = int(op['pick'] * len(cands))
    cur = ctx.conn.cursor()
    cur.execute('SELECT * FROM %s LIMIT 1' % ctx.table)
    base_row = cur.fetchone()
    names = [c['name'] for c in ctx.cols]
    for j in range(len(cands)):
        f, k, v = cands[(start + j) % len(cands)]
        val = rogue_value(ctx, f, k, v, op['pick2'])
        if val is NOPE:
            continue
        row = list(base_row) if base_row is not None else [None] * len(names)
        row[names.index(f)] = val
        if not insert_rows(ctx, [row], commit=op.get('commit', True),
                           other=op.get('other_conn', False)):
            return
        ctx.clean = False
        ctx.rogue = {'field': f, 'kind': k, 'value': v, 'row': row}
        ctx.stats['faults']['rogue_' + k] += 1
        ctx.nontrivial = True
        ctx.events.append({'i': op['i'], 'op': 'rogue_insert', 'field': f,
                           'kind': k, 'row': row})
        return
    ctx.stats['abstain']['no_rogue_value_found'] += 1


NOPE = object()


def rogue_value(ctx, f, kind, v, pick2):
    t = coltype(ctx, f)
    cs = ctx.cs['fields'][f]
    if kind == 'min':
        if t in ('integer',):
            return v - 1
        if t == 'real':
            return v - abs(v) * 0.5 - 1.0
        if t == 'datetime':
            return '1900-01-01 00:00:00' if str(v) > '1900-01-01 00:00:00' \
                else NOPE
        return NOPE
    if kind == 'max':
        if t == 'integer':
            return v + 1
        if t == 'real':
            return v + abs(v) * 0.5 + 1.0
        if t == 'datetime':
            return '2999-12-31 23:59:59' if str(v) < '2999-12-31 23:59:59' \
                else NOPE
        return NOPE
    if kind == 'min_length':
        return 'q' * (v - 1) if v >= 1 else NOPE
    if kind == 'max_length':
        return 'q' * (v + 1)
    if kind == 'allowed_values':
        cand = 'zz-new-%d' % int(pick2 * 1000)
        return cand if cand not in v else NOPE
    if kind == 'no_duplicates':
        cur = ctx.conn.cursor()
        cur.execute('SELECT %s FROM %s WHERE %s IS NOT NULL LIMIT 1'
                    % (q(f), ctx.table, q(f)))
        r = cur.fetchone()
        return r[0] if r else NOPE
    if kind == 'max_nulls':
        return None
    if kind == 'sign':
        if t not in ('integer', 'real'):
            return NOPE
        return {'positive': -1, 'non-negative': -1, 'zero': 1,
                'non-positive': 1, 'negative': 1}.get(v, NOPE)
    if kind == 'rex':
        try:
            crs = [re.compile(x, re.U | re.S) for x in v]
        except re.error:
            return NOPE
        for cand in ('~~~ no match ~~~', 'ZZZ 999 zzz !!', '☃',
                     'q' * 37):
            if not any(c.match(cand) for c in crs):
                return cand
        return NOPE
    return NOPE


def op_analyze(ctx, op):
    try:
        ctx.conn.cursor().execute('ANALYZE')
        ctx.conn.commit()
        ctx.stats['probes']['database_analysed_earlier'] += 1
        ctx.events.append({'i': op['i'], 'op': 'analyze', 'outcome': 'ok'})
    except Exception as e:
        # (locked by the other writer's open transaction)
        ctx.stats['abstain']['analyze_blocked'] += 1
        ctx.events.append({'i': op['i'], 'op': 'analyze',
                           'outcome': type(e).__name__})


OPS = {'analyze': op_analyze, 'insert': op_insert, 'discover': op_discover, 'verify': op_verify,
       'rogue_insert': op_rogue_insert, 'delete_all': op_delete_all,
       'recreate': op_recreate, 'failed_call': op_failed_call}


def shrink(plan):
    cfg = plan['config']
    if len(cfg['columns']) > 1:
        for ci in range(len(cfg['columns'])):
            cand = copy.deepcopy(plan)
            del cand['config']['columns'][ci]
            for row in cand['config']['rows']:
                del row[ci]
            for op in cand['ops']:
                for row in op.get('rows', []):
                    del row[ci]
                if 'columns' in op:
                    del op['columns'][ci]
            yield cand
    for ri in range(len(cfg['rows'])):
        cand = copy.deepcopy(plan)
        del cand['config']['rows'][ri]
        yield cand
    for ri, row in enumerate(cfg['rows']):
        for ci, v in enumerate(row):
            if isinstance(v, str) and len(v) > 1:
                for t in (v[:len(v) // 2], v[len(v) // 2:]):
                    cand = copy.deepcopy(plan)
                    cand['config']['rows'][ri][ci] = t
                    yield cand
