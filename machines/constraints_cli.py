"""
C17 part of M-CON: the tdda command line as a simulated process next to the
library on the same files.

The CLI is executed in-process through console.main_with_argv with cwd, argv,
stdin, stdout/stderr and the exit status owned by the harness (exit status =
SystemExit.code, 1 for an escaping exception, else 0).
"""

import copy
import io
import json
import os
import sys

from sim import fsaudit
from sim.watchdog import WatchdogTimeout
from gens import frames as gf

CLI_KINDS = [(3, 'int'), (3, 'float'), (4, 'str'), (1.5, 'dt_ns'),
             (1, 'bool'), (0.7, 'Int64')]


def gen_table(r):
    spec = gf.gen_frame(r, max_rows=10, max_cols=4, kinds=CLI_KINDS)
    while spec['nrows'] == 0 and r.chance(0.8):
        spec = gf.gen_frame(r, max_rows=10, max_cols=4, kinds=CLI_KINDS)
    spec['index'] = None
    # CSV-friendly names and values (the differential is about the CLI
    # plumbing, both sides use the same loader)
    names = ['a', 'b', 'c', 'd']
    for i, c in enumerate(spec['columns']):
        c['name'] = names[i] if r.chance(0.8) else r.pick(
            ['naïve', 'Field Name', 'col_1', '数'])
        if c['kind'] == 'float':
            c['values'] = [None if v is None else
                           (v if isinstance(v, float) and abs(v) < 1e15
                            else 1.5) for v in c['values']]
        if c['kind'] == 'str':
            c['values'] = [None if v is None else
                           v.replace('\n', ' ').replace('\t', ' ')
                           .replace('"', "'") or 'x' for v in c['values']]
    seen = set()
    for c in spec['columns']:
        while c['name'] in seen:
            c['name'] += '_'
        seen.add(c['name'])
    return spec


def gen_detect_flags(r, spec):
    f = []
    if r.chance(0.3):
        f.append('--write-all')
    k = r.weighted([(4, None), (2, '--per-constraint'),
                    (3, '--no-per-constraint')])
    if k:
        f.append(k)
    k = r.weighted([(4, None), (2, 'nof'), (2, 'of')])
    of = None
    if k == 'nof':
        f.append('--no-output-fields')
    elif k == 'of' and spec['columns']:
        of = [r.pick(spec['columns'])['name']]
    if r.chance(0.25):
        f.append('--interleave')
    if r.chance(0.3):
        f.append('--index')
    if r.chance(0.3):
        f.append('--int')
    if r.chance(0.3):
        f += ['--epsilon', r.pick(['0.01', '0.5', '0'])]
    if r.chance(0.2):
        f += ['-t', r.pick(['strict', 'sloppy'])]
    if r.chance(0.2):
        f.append('-7')
    return f, of


def gen_c17(r, tier):
    from gens import constraints as gcs
    spec = gen_table(r)
    fmt = r.weighted([(6, 'csv'), (4, 'parquet')])
    inp = 'data.' + fmt
    ops = [{'op': 'write_table', 'client': 'U', 'frame': 0, 'path': inp}]
    if r.chance(0.2):
        # the input file is a symlink into another directory
        ops[0]['via_symlink'] = True
    n = r.randint(1, 4)
    have_tdda = False
    for _ in range(n):
        k = r.weighted([(3, 'discover'), (3, 'verify'), (4, 'detect'),
                        (3, 'fault')])
        if k == 'discover' or (k in ('verify', 'detect') and not have_tdda
                               and r.chance(0.6)):
            out = r.weighted([(6, 'data.tdda'), (2, 'other.tdda'), (1, '-'),
                              (1, None)])
            argv = ['discover'] + (['-r'] if r.chance(0.4) else
                                   ['-R'] if r.chance(0.2) else []) + [inp]
            if out:
                argv.append(out)
            use_stdin = fmt == 'csv' and r.chance(0.15)
            if use_stdin:
                argv[argv.index(inp)] = '-'
                if out is None:
                    argv.append('-')
            ops.append({'op': 'cli', 'client': 'C', 'cmd': 'discover',
                        'argv': argv, 'input': inp, 'stdin': use_stdin,
                        'out': out})
            if out and out != '-':
                have_tdda = out
        elif k == 'verify':
            if have_tdda and r.chance(0.6):
                cs = have_tdda
                ops.append({'op': 'cli', 'client': 'C', 'cmd': 'verify',
                            'argv': ['verify', inp, cs] + gen_verify_flags(r),
                            'input': inp, 'cs': cs, 'discovered': True})
                if cs == 'data.tdda' and r.chance(0.4):
                    # constraints file left implicit: <input stem>.tdda
                    # next to the input as named
                    ops[-1]['argv'].remove(cs)
                    ops[-1]['implicit_cs'] = True
            else:
                ops.append({'op': 'write_cs', 'client': 'U',
                            'path': 'hand.tdda',
                            'cs': gcs.near_miss(r, spec)})
                ops.append({'op': 'cli', 'client': 'C', 'cmd': 'verify',
                            'argv': ['verify', inp, 'hand.tdda']
                            + gen_verify_flags(r),
                            'input': inp, 'cs': 'hand.tdda'})
            if fmt == 'csv' and r.chance(0.3) and \
                    not ops[-1].get('implicit_cs'):
                # the table arrives on standard input
                a = ops[-1]['argv']
                a[1] = '-'
                ops[-1]['stdin'] = True
                if '--epsilon' not in a and r.chance(0.6):
                    a += ['--epsilon', r.pick(['0.01', '0.5', '0.1'])]
                if '-t' not in a and r.chance(0.4):
                    a += ['-t', 'strict']
        elif k == 'detect':
            ops.append({'op': 'write_cs', 'client': 'U', 'path': 'hand.tdda',
                        'cs': gcs.near_miss(r, spec)})
            flags, of = gen_detect_flags(r, spec)
            out = r.weighted([(5, 'bads.csv'), (3, 'bads.parquet')])
            if r.chance(0.3):
                ops.append({'op': 'stale_output', 'client': 'U',
                            'path_cwd': out, 'junk': 'old,stuff\n1,2\n'})
            argv = ['detect', inp, 'hand.tdda', out] + flags
            if of:
                argv += ['--output-fields'] + of
            ops.append({'op': 'cli', 'client': 'C', 'cmd': 'detect',
                        'argv': argv, 'input': inp, 'cs': 'hand.tdda',
                        'out': out})
            if fmt == 'csv' and r.chance(0.2):
                ops[-1]['argv'][1] = '-'
                ops[-1]['stdin'] = True
        else:
            ops.extend(gen_fault(r, spec, inp))
    k = 0
    while k < len(ops):
        op = ops[k]
        if op['op'] == 'cli' and not op.get('fault') and op.get('out') \
                and op['out'] != '-' and op['cmd'] in ('discover', 'detect') \
                and r.chance(0.15):
            # the same invocation, a moment earlier, was cut short by an
            # I/O error while writing its output (disk full, quota); the
            # user makes room and runs it again
            bad = copy.deepcopy(op)
            bad['io_fault'] = {'kind': r.pick(['enospc', 'eio', 'short_write']),
                               'site': r.randint(0, 1),
                               'short': r.randint(0, 20)}
            ops.insert(k, bad)
            k += 1
        k += 1
    for op in ops:
        if op['op'] == 'cli' and not op.get('fault'):
            if op['cmd'] == 'discover' and r.chance(0.15):
                op['argv'].insert(1, '-7')
            if op['cmd'] == 'detect' and r.chance(0.2):
                op['argv'].append(r.pick(['-a', '-f', '-7']))
            op['argv'] = respell(r, op['argv'])
    return {'config': {'frames': [spec],
                       'default_encoding': r.weighted([(8, None),
                                                       (1, 'cp1252'),
                                                       (1, 'latin-1')])},
            'ops': ops}


LONG = {'-r': '--rex', '-R': '--norex', '-7': '--ascii',
        '-t': '--type_checking', '--epsilon': '-epsilon', '-a': '--all',
        '-f': '--fields'}
SHORT = {v: k for k, v in LONG.items()}


def respell(r, argv):
    """The same invocation under other documented spellings of its flags
    (long/short forms, --flag=value)."""
    out = []
    i = 0
    while i < len(argv):
        x = argv[i]
        if x in LONG and r.chance(0.4):
            x = LONG[x]
        elif x in SHORT and r.chance(0.3):
            x = SHORT[x]
        if x in ('--epsilon', '--type_checking') and i + 1 < len(argv) \
                and r.chance(0.3):
            out.append('%s=%s' % (x, argv[i + 1]))
            i += 2
            continue
        out.append(x)
        i += 1
    return out


def canon(argv):
    """argv with every flag in the one spelling the oracle helpers read."""
    out = []
    for x in argv:
        if x.startswith('--') and '=' in x:
            k, v = x.split('=', 1)
            out += [k, v]
        else:
            out.append(x)
    fix = {'--rex': '-r', '--norex': '-R', '--ascii': '-7',
           '--type_checking': '-t', '-epsilon': '--epsilon', '--all': '-a',
           '--fields': '-f'}
    return [fix.get(x, x) for x in out]


def gen_verify_flags(r):
    f = []
    if r.chance(0.3):
        f.append(r.pick(['-a', '--all', '-f', '--fields']))
    if r.chance(0.2):
        f.append('-7')
    if r.chance(0.3):
        f += ['--epsilon', r.pick(['0.01', '0.5'])]
    if r.chance(0.25):
        f += ['-t', r.pick(['strict', 'sloppy'])]
    return f


def gen_fault(r, spec, inp):
    from gens import constraints as gcs
    kind = r.pick(['missing_input', 'missing_constraints', 'unknown_flag',
                   'contradictory_flags'])
    cmd = r.pick(['discover', 'verify', 'detect'])
    if kind == 'missing_constraints' and cmd == 'discover':
        cmd = 'verify'
    if kind == 'contradictory_flags':
        cmd = 'detect'
    ops = []
    out = {'discover': 'f.tdda', 'verify': None,
           'detect': r.pick(['fbads.csv', 'fbads.parquet'])}[cmd]
    if cmd != 'discover':
        ops.append({'op': 'write_cs', 'client': 'U', 'path': 'hand.tdda',
                    'cs': gcs.near_miss(r, spec)})
    if out and r.chance(0.5):
        ops.append({'op': 'stale_output', 'client': 'U', 'path_cwd': out,
                    'junk': 'stale\n'})
    the_in = inp
    cs = 'hand.tdda'
    extra = []
    if kind == 'missing_input':
        the_in = r.pick(['nothere.csv', 'nothere.parquet'])
    elif kind == 'missing_constraints':
        cs = 'nothere.tdda'
    elif kind == 'unknown_flag':
        extra = [r.pick(['--bogus', '-Q', '--write_all', '--fuzzy'])]
    else:
        extra = r.pick([['--per-constraint', '--no-per-constraint'],
                        ['--output-fields', spec['columns'][0]['name'],
                         '--no-output-fields'] if spec['columns']
                        else ['--per-constraint', '--no-per-constraint']])
    if cmd == 'discover':
        argv = ['discover', the_in, out] + extra
    elif cmd == 'verify':
        argv = ['verify', the_in, cs] + extra
    else:
        argv = ['detect', the_in, cs, out] + extra
    if r.chance(0.5) and extra and kind == 'unknown_flag':
        argv = [argv[0]] + extra + argv[1:]
    ops.append({'op': 'cli', 'client': 'C', 'cmd': cmd, 'argv': argv,
                'input': the_in, 'cs': cs, 'out': out, 'fault': kind,
                'optimized': r.chance(0.3)})
    return ops


# --------------------------------------------------------------------------

def op_write_table(ctx, op):
    df = ctx.frames[op['frame']]
    p = ctx.W.path('cwd', op['path'])
    if op.get('via_symlink'):
        os.makedirs(ctx.W.path('cwd', 'store'), exist_ok=True)
        real = ctx.W.path('cwd', 'store', 'real_' + op['path'])
        os.symlink(os.path.join('store', 'real_' + op['path']), p)
        ctx.stats['probes']['input_file_is_a_symlink'] += 1
        p = real
    if p.endswith('.parquet'):
        df.to_parquet(p, index=False)
    else:
        df.to_csv(p, index=False)
    ctx.events.append({'i': op['i'], 'op': 'write_table'})


def op_write_cs(ctx, op):
    p = ctx.W.path('cwd', op['path'])
    with io.open(p, 'w', encoding='utf-8') as f:
        f.write(json.dumps(op['cs'], indent=4, ensure_ascii=False) + '\n')
    ctx.events.append({'i': op['i'], 'op': 'write_cs'})


def op_stale_cwd(ctx, op):
    p = ctx.W.path('cwd', op['path_cwd'])
    with io.open(p, 'w', encoding='utf-8') as f:
        f.write(op['junk'])
    ctx.stats['faults']['stale_output_planted'] += 1
    ctx.nontrivial = True
    ctx.events.append({'i': op['i'], 'op': 'stale_output'})


def run_cli(ctx, argv, stdin_text=None, optimized=False):
    if optimized:
        # the `tdda` command in an interpreter started with -O
        from sim.optwin import OptimizedTwin
        with OptimizedTwin(ctx.stats['faults']):
            return run_cli_inner(ctx, argv, stdin_text)
    enc = getattr(ctx, 'default_encoding', None)
    if enc:
        # a process whose preferred text encoding is not UTF-8
        from sim.defaultenc import DefaultEncoding
        with DefaultEncoding(enc, ctx.stats['faults']):
            return run_cli_inner(ctx, argv, stdin_text)
    return run_cli_inner(ctx, argv, stdin_text)


def run_cli_inner(ctx, argv, stdin_text=None):
    """One CLI invocation as a simulated process."""
    from tdda.constraints import console
    saved = (sys.argv, sys.stdin, sys.stdout, sys.stderr)
    out, err = io.StringIO(), io.StringIO()
    sys.argv = ['tdda'] + list(argv)
    sys.stdin = io.StringIO(stdin_text or '')
    sys.stdout, sys.stderr = out, err
    status, exc, ret = 0, None, None
    try:
        ret = console.main_with_argv(['tdda'] + list(argv), verbose=True)
    except WatchdogTimeout:
        raise
    except SystemExit as e:
        status = e.code if isinstance(e.code, int) else (
            0 if e.code is None else 1)
    except BaseException as e:
        if isinstance(e, KeyboardInterrupt):
            raise
        status, exc = 1, e
    finally:
        sys.argv, sys.stdin, sys.stdout, sys.stderr = saved
    return status, exc, ret, out.getvalue(), err.getvalue()


def detect_kwargs_from_flags(argv):
    """The documented meaning of the detect flags as library keywords."""
    kw = {'per_constraint': True, 'output_fields': [], 'report': 'records'}
    i = 0
    a = list(argv)
    while i < len(a):
        x = a[i]
        if x == '--write-all':
            kw['write_all'] = True
        elif x == '--no-per-constraint':
            kw.pop('per_constraint', None)
        elif x == '--no-output-fields':
            kw.pop('output_fields', None)
        elif x == '--output-fields':
            of = []
            while i + 1 < len(a) and not a[i + 1].startswith('-'):
                of.append(a[i + 1])
                i += 1
            kw['output_fields'] = of
        elif x == '--interleave':
            kw['interleave'] = True
        elif x == '--index':
            kw['index'] = True
        elif x == '--int':
            kw['boolean_ints'] = True
        elif x == '--epsilon':
            kw['epsilon'] = float(a[i + 1])
            i += 1
        elif x == '-t':
            kw['type_checking'] = a[i + 1]
            i += 1
        i += 1
    return kw


def verify_kwargs_from_flags(argv):
    kw = {}
    a = list(argv)
    for i, x in enumerate(a):
        if x == '--epsilon':
            kw['epsilon'] = float(a[i + 1])
        elif x == '-t':
            kw['type_checking'] = a[i + 1]
    return kw


def violation(ctx, op, clause, tag, detail):
    sig = '%s/%s/%s' % (ctx.prop, clause, tag)
    ctx.violations.append({'clause': clause, 'signature': sig,
                           'detail': ctx.W.scrub(detail)[:4000],
                           'at_op': op['i']})


def exc_tag(e):
    import traceback
    fn = '?'
    for fr in traceback.extract_tb(e.__traceback__):
        if '/tdda/' in fr.filename:
            fn = fr.name
    return '%s@%s' % (type(e).__name__, fn)


def op_cli(ctx, op):
    import pandas as pd
    from tdda.constraints import discover_df, verify_df, detect_df
    from tdda.constraints.pd.constraints import load_df
    W = ctx.W
    cwd = W.path('cwd')
    argv = list(op['argv'])
    real_argv = list(argv)
    outp = W.path('cwd', op['out']) if op.get('out') and op['out'] != '-' \
        else None
    pre = None
    if outp:
        pre = fsaudit.snapshot([outp]).get(outp)
    stdin_text = None
    if op.get('stdin'):
        with io.open(W.path('cwd', op['input']), encoding='utf-8') as f:
            stdin_text = f.read()
    before = fsaudit.snapshot([cwd])
    if op.get('io_fault'):
        f = op['io_fault']
        errno_ = {'enospc': 28, 'eio': 5, 'short_write': 28}[f['kind']]
        seam = fsaudit.FsSeam([W.root])
        with seam:
            seam.begin_op({'kind': f['kind'], 'site': f['site'],
                           'errno': errno_,
                           'short': f['short'] if f['kind'] == 'short_write'
                           else None}, None)
            status, exc, ret, out, err = run_cli(ctx, real_argv, stdin_text)
            fired = list(seam.fired)
            seam.begin_op(None, None)
        for x in fired:
            ctx.stats['faults']['io_' + x[0]] += 1
        ctx.events.append({'i': op['i'], 'op': 'cli-io-fault',
                           'argv': real_argv, 'fired': len(fired),
                           'status': 1 if status else 0})
        ctx.shape.append('%sF%d' % (op['cmd'][:3], len(fired)))
        if fired:
            ctx.nontrivial = True
        # nothing is promised about an invocation cut short by an I/O
        # error; the next one is checked in full
        return
    status, exc, ret, out, err = run_cli(
        ctx, real_argv, stdin_text,
        optimized=bool(op.get('fault') and op.get('optimized')))
    if canon(argv) != argv:
        ctx.stats['probes']['alternative_flag_spellings'] += 1
    # from here on argv is the canonical spelling (what the flags mean)
    argv = canon(argv)
    after = fsaudit.snapshot([cwd])
    delta = fsaudit.diff(before, after, ignore_mtime=True)
    # .tdda files carry wall-clock creation stamps (the clock is not
    # stubbed in this machine): a rewrite is not logged as a modification
    delta = [(p, c) for p, c in delta
             if not (p.endswith('.tdda') and c == 'modified')]
    ev = {'i': op['i'], 'op': 'cli', 'argv': argv, 'status': status,
          'exc': exc_tag(exc) if exc else None,
          'delta': [(W.rel(p), c) for p, c in delta]}
    ctx.events.append(ev)
    fault = op.get('fault')
    ctx.shape.append('%s%s:%s:%s:%d' % (
        op['cmd'][:3], 'I' if op.get('stdin') else '',
        ','.join(sorted(a for a in argv if a.startswith('-'))),
        fault or '-', 1 if status else 0))
    ctx.states.add('%s|%s|%s' % (op['cmd'], sorted(
        a for a in argv if a.startswith('-')), fault))
    if ctx.prop != 'C17':
        return
    if fault:
        ctx.stats['faults'][fault] += 1
        ctx.nontrivial = True
        ctx.stats['checks']['fault_invocations'] += 1
        if status == 0:
            violation(ctx, op, 'fault-exits-nonzero',
                      '%s/%s' % (fault, op['cmd']),
                      'tdda %s ended with exit status 0\nstdout: %s\n'
                      'stderr: %s' % (' '.join(argv), out[-400:], err[-400:]))
        if outp and os.path.exists(outp):
            now = fsaudit.snapshot([outp]).get(outp)
            if pre is None:
                violation(ctx, op, 'fault-leaves-no-output',
                          '%s/%s/created' % (fault, op['cmd']),
                          'failed invocation tdda %s created %s'
                          % (' '.join(argv), W.rel(outp)))
            elif now != pre:
                violation(ctx, op, 'fault-leaves-no-output',
                          '%s/%s/rewrote-stale' % (fault, op['cmd']),
                          'failed invocation rewrote %s' % W.rel(outp))
            else:
                # a pre-existing file the invocation never reached
                ctx.stats['probes']['stale_output_survives_failed_run'] += 1
        return
    # ---- normal invocations: differential against the library
    inp = W.path('cwd', op['input'])
    if exc is not None or status != 0:
        # does the library raise on the same inputs?
        lib_ok = True
        try:
            df = load_df(inp)
            if op['cmd'] == 'discover':
                discover_df(df, inc_rex='-r' in argv)
            elif op['cmd'] == 'verify':
                verify_df(df, W.path('cwd', op['cs']),
                          **verify_kwargs_from_flags(argv))
            else:
                detect_df(df, W.path('cwd', op['cs']),
                          outpath=W.path('data', 'lib_' + op['out']),
                          rownumber_is_index=False,
                          **detect_kwargs_from_flags(argv))
        except WatchdogTimeout:
            raise
        except Exception:
            lib_ok = False
        if lib_ok:
            violation(ctx, op, 'cli-fails-where-library-works',
                      '%s/%s' % (op['cmd'], exc_tag(exc) if exc
                                 else 'exit-%s' % status),
                      'tdda %s: status %s exc %r\nstderr: %s'
                      % (' '.join(argv), status, exc, err[-600:]))
        else:
            ctx.stats['abstain']['library_also_fails'] += 1
        return
    ctx.stats['checks']['differential_invocations'] += 1
    ctx.nontrivial = True
    df = load_df(inp)
    if op['cmd'] == 'discover':
        lib = discover_df(df, inc_rex='-r' in argv)
        want = lib.to_dict()['fields'] if lib is not None else None
        if op.get('out') == '-' or op.get('out') is None:
            text = out
        else:
            if not os.path.exists(outp) and want is None:
                # nothing discoverable (e.g. only pandas-3 `str` columns,
                # which tdda types as "other"): library returns None too
                ctx.stats['probes']['nothing_discovered_both_sides'] += 1
                return
            if not os.path.exists(outp):
                violation(ctx, op, 'discover-writes-file', 'missing',
                          'tdda %s wrote no %s' % (' '.join(argv),
                                                   op['out']))
                return
            with io.open(outp, 'rb') as f:
                raw = f.read()
            try:
                text = raw.decode('utf-8')
            except UnicodeDecodeError as e:
                # (.tdda files are UTF-8: that is how load() reads them)
                violation(ctx, op, 'discover-output-is-json', 'file-not-utf8',
                          'the .tdda file written is not UTF-8: %r' % (e,))
                return
        try:
            got = json.loads(text)['fields'] if text.strip() else None
        except Exception as e:
            violation(ctx, op, 'discover-output-is-json',
                      'stdout' if not outp else 'file',
                      'cannot parse discover output: %r\n%s' % (e, text[:400]))
            return
        if json.dumps(got, sort_keys=True, default=str) != \
                json.dumps(want, sort_keys=True, default=str):
            violation(ctx, op, 'discover-same-constraints',
                      'rex' if '-r' in argv else 'norex',
                      'CLI and library constraints differ:\ncli %s\nlib %s'
                      % (json.dumps(got, sort_keys=True, default=str,
                                    ensure_ascii=False)[:1500],
                         json.dumps(want, sort_keys=True, default=str,
                                    ensure_ascii=False)[:1500]))
        return
    if op['cmd'] == 'verify':
        lib = verify_df(df, W.path('cwd', op['cs']),
                        **verify_kwargs_from_flags(argv))
        import re
        m1 = re.search(r'Constraints passing: (\d+)', out)
        m2 = re.search(r'Constraints failing: (\d+)', out)
        got = (int(m1.group(1)), int(m2.group(1))) if m1 and m2 else None
        obj = (ret.passes, ret.failures) if ret is not None else None
        want = (lib.passes, lib.failures)
        if got != want or (obj is not None and obj != want):
            violation(ctx, op, 'verify-same-counts', 'counts',
                      'tdda %s printed %r / returned %r, library %r\n%s'
                      % (' '.join(argv), got, obj, want, out[-600:]))
        if op.get('discovered') and want[1] != 0:
            violation(ctx, op, 'discovered-from-file-verifies',
                      'failures',
                      'constraints discovered from %s fail on it: %s'
                      % (op['input'], str(lib)[:800]))
        return
    # detect
    libout = W.path('data', 'lib_' + op['out'])
    if os.path.exists(libout):
        os.remove(libout)
    kw = detect_kwargs_from_flags(argv)
    lib = detect_df(df, W.path('cwd', op['cs']), outpath=libout,
                    rownumber_is_index=False, **kw)
    a_exists, b_exists = os.path.exists(outp), os.path.exists(libout)
    if a_exists != b_exists:
        violation(ctx, op, 'detect-same-output', 'existence',
                  'CLI output exists=%s, library output exists=%s for %s'
                  % (a_exists, b_exists, ' '.join(argv)))
        return
    if a_exists:
        if outp.endswith('.parquet'):
            fa, fb = pd.read_parquet(outp), pd.read_parquet(libout)
            same = list(fa.columns) == list(fb.columns) and fa.equals(fb)
            ta, tb = fa.to_string()[:800], fb.to_string()[:800]
        else:
            with io.open(outp, 'rb') as f:
                ba = f.read()
            with io.open(libout, 'rb') as f:
                bb = f.read()
            same = ba == bb
            ta, tb = ba.decode('utf-8', 'replace')[:800], \
                bb.decode('utf-8', 'replace')[:800]
        if not same:
            violation(ctx, op, 'detect-same-output',
                      'content/%s' % ','.join(sorted(
                          a for a in argv if a.startswith('--'))),
                      'tdda %s\nCLI output:\n%s\nlibrary output (%r):\n%s'
                      % (' '.join(argv), ta, kw, tb))
    if pre is not None:
        ctx.stats['probes']['stale_output_%s' % (
            'overwritten' if a_exists else 'removed')] += 1


def shrink_cli(plan):
    return []
