"""
M-REX: rexpy under a controlled PRNG (C03, C13, C14, C18).

System (real code): tdda.rexpy.extract / Extractor / pdextract, the module
level memo/nCalls, the global `random` module.
Seams: rexpy.random -> SimRandom facade (seeded: real global stream;
scripted: plan-owned subsets), explicit Size(...) knobs, Extractor.batch_extract
wrapped for observation (attempt count), process hash seed (worker pools).
"""

import collections
import sys
import os
import io
import copy
import random
import re
import unicodedata

from sim import rng as simrng
from sim.watchdog import WatchdogTimeout
from gens import strings as gs

NAME = 'M-REX'
PROPS = ('C03', 'C13', 'C14', 'C18')

TIERS = {
    'C03': {'quick': {'runs': 40000, 'wall_cap': 150},
            'thorough': {'runs': 240000, 'wall_cap': 900}},
    'C13': {'quick': {'runs': 30000, 'wall_cap': 150},
            'thorough': {'runs': 200000, 'wall_cap': 900}},
    'C14': {'quick': {'runs': 20000, 'wall_cap': 150, 'xhash_every': 10},
            'thorough': {'runs': 100000, 'wall_cap': 900, 'xhash_every': 10}},
    'C18': {'quick': {'runs': 30000, 'wall_cap': 150},
            'thorough': {'runs': 200000, 'wall_cap': 900}},
}

LEVELS = {p: 'exploration' for p in PROPS}

STATES_MEASURE = ('distinct (extraction attempts, sample sizes per attempt, '
                  '#patterns, coarse class set of corpus) tuples over all '
                  'extract ops')

COMPONENTS = {
    'real': ['tdda.rexpy (extract, Extractor, pdextract, coverage functions)',
             'python re', 'global random module (seeded mode)',
             'pandas Series (pdextract form)'],
    'stub': ['random.sample draws when seed=None (scripted mode: subsets '
             'chosen by the plan, uniform or adversarial)',
             'Size tuning knobs are plan-chosen rather than the hard-wired '
             'defaults'],
}

RULES = {
    'C03': 'each run = 1-4 extract calls by 1-3 callers sharing one '
           'interpreter (memo, global PRNG), corpus/options/Size knobs/seed/'
           'PRNG mode drawn from the run seed; non-trivial = the sampled path '
           'was reached or >=2 callers interleaved or a PRNG fault (perturbed '
           'global stream, adversarial/uniform scripted sample) fired; '
           'distinct = distinct (op kinds+forms+variants, PRNG mode, '
           'attempts, #patterns bucket, verdict) shape strings',
    'C13': 'as C03 plus max_patterns/min_strings_per_pattern; each extract is '
           'run untagged and tagged from the same memo/PRNG snapshot and the '
           'same scripted choice list; non-trivial/distinct as C03',
    'C14': 'each run = one target call executed first, after a seeded prefix '
           'of other callers\' calls and PRNG perturbations, again, permuted, '
           'as a frequency dict and with repeats; plus a subset of runs '
           're-executed in fresh interpreters under the two other '
           'PYTHONHASHSEED values; non-trivial = prefix non-empty or sampled '
           'path reached; distinct = distinct (prefix op-kind sequence, '
           'target config, regime, verdict) shapes',
    'C18': 'each run = 1-3 Extractor constructions with coverage(), '
           'incremental_coverage(), full_incremental_coverage(), n_examples() '
           'for dedup in {False, True}; non-trivial/distinct as C03',
}

ASSUMPTIONS = {
    'C03': ['expressions are interpreted with re.UNICODE|re.DOTALL and '
            're.match on the anchored expression as returned',
            'posix/java dialects are outside the statement',
            'an exception escaping extract counts as "no expression returned"'],
    'C13': ['"anchored" = starts with ^ and ends with $',
            'tag comparison is per example over the whole list, plus pairwise '
            'when both lists have equal length'],
    'C14': ['under sampling without a seed the oracle abstains on equality; '
            'under sampling with a seed it abstains on order/form invariance '
            '(a seeded sample of a list legitimately depends on its order)',
            'whether sampling happened is observed at the randomness seam, '
            'not predicted from the knobs'],
    'C18': ['number supplied = examples kept after the explicit options '
            '(nulls, removed empties, zero-frequency dict entries discarded); '
            'runs containing nulls abstain on n_examples'],
}

RE_FLAGS = re.UNICODE | re.DOTALL


# --------------------------------------------------------------------------
# generation
# --------------------------------------------------------------------------

def gen_size(r, force_small=False):
    if not force_small and r.chance(0.45):
        return None
    s = {}
    s['do_all'] = r.weighted([(5, r.randint(1, 4)), (3, r.randint(3, 8)),
                              (1, 100)])
    s['do_all_exceptions'] = r.weighted([(5, r.randint(1, 3)),
                                         (3, r.randint(2, 6)), (1, 4000)])
    if r.chance(0.5):
        s['max_sampled_attempts'] = r.randint(0, 3)
    if r.chance(0.3):
        s['n_per_length'] = r.randint(1, 8)
    if r.chance(0.3):
        s['max_punc_in_group'] = r.randint(1, 5)
    if r.chance(0.3):
        s['max_strings_in_group'] = r.randint(1, 10)
    if r.chance(0.05):
        s['use_sampling'] = False
    return s


def gen_opts(r, prop):
    o = {}
    if r.chance(0.25):
        o['tag'] = True
    if r.chance(0.2):
        o['strip'] = True
    if r.chance(0.2):
        o['remove_empties'] = True
    if r.chance(0.3):
        o['extra_letters'] = r.pick(['_', '.', '-', '_-', '_.', '.-', '_.-'])
    if r.chance(0.25):
        o['variableLengthFrags'] = True
    d = r.weighted([(5, 'default'), (3, 'perl'), (1, None), (3, 'portable'),
                    (3, 'grep')])
    if d != 'default':
        o['dialect'] = d
    if prop == 'C13':
        if r.chance(0.2):
            o['max_patterns'] = r.randint(1, 4)
        if r.chance(0.2):
            o['min_strings_per_pattern'] = r.randint(1, 3)
    return o


def gen_rs(r, seed):
    """Randomness-seam mode for one op."""
    if seed is not None:
        return {'mode': 'real'}
    m = r.weighted([(3, 'real'), (4, 'scripted'), (3, 'adversarial')])
    if m == 'real':
        return {'mode': 'real'}
    return {'mode': 'scripted', 'seed': r.getrandbits(32),
            'adv': (r.pick(['common', 'rare']) if m == 'adversarial'
                    else None)}


def gen_extract(r, prop, client, risky_rate=0.04, force_small=False,
                max_n=40):
    examples, info = gs.corpus(r, max_n=max_n, risky_rate=risky_rate)
    if r.chance(0.04):
        # nothing to learn from: no examples, or nulls only
        examples = r.pick([[], [None], [None, None]])
    form = r.weighted([(6, 'list'), (3, 'dict'), (1, 'series'),
                       (1.2, 'streams')])
    opts = gen_opts(r, prop)
    size = gen_size(r, force_small)
    seed = r.weighted([(6, r.randint(2, 2 ** 31)), (1, 0), (1, 1),
                       (0.5, 2 ** 32 - 1), (0.5, 2 ** 63)]) \
        if r.chance(0.45) else None
    op = {'op': 'extract', 'client': client, 'form': form,
          'examples': examples, 'opts': opts, 'size': size, 'seed': seed,
          'info': info}
    if form == 'dict':
        c = collections.OrderedDict()
        for s in examples:
            if s is not None:
                c[s] = c.get(s, 0) + 1
        op['examples'] = list(c.keys())
        op['freqs'] = [n if r.chance(0.7) else r.randint(1, 5)
                       for n in c.values()]
        if not op['examples']:
            op['form'] = 'list'
            op['examples'] = examples
            del op['freqs']
    if op['form'] == 'streams':
        # rexpy_streams(list, False, ...): the list-of-lines entry point,
        # optionally with a header line to skip; nulls are not lines
        op['examples'] = [s for s in examples if s is not None]
        op['skip_header'] = r.chance(0.6)
        op['header'] = r.pick(['code', 'value', 'Name', 'id'])
        if r.chance(0.4):
            op['out_file'] = r.pick(['out.txt', 'rex.txt'])
            if r.chance(0.25):
                op['io_fault'] = True
            elif r.chance(0.25):
                op['default_encoding'] = r.pick(['ascii', 'latin-1'])
        if not op['examples']:
            op['form'] = 'list'
            op['examples'] = examples
    if op['form'] == 'series':
        # pdextract takes no options apart from the seed
        op['opts'] = {}
        op['size'] = None
        k = r.randint(1, 2)
        op['split'] = k
        # pandas' object hashtable treats strings as C strings: a value with
        # an embedded NUL collides with its prefix in Series.unique(), so
        # pdextract never sees it.  That is pandas, not tdda: keep NULs out
        # of the Series form.
        op['examples'] = [s.replace('\x00', '\x01') if s is not None else s
                          for s in op['examples']]
        op['series_dtype'] = r.weighted([(4, 'object'), (2, 'category'),
                                         (2, 'category_unused'), (1, 'str')])
        if op['series_dtype'] == 'category_unused':
            op['extra_categories'] = r.sample(
                ['zzzz', 'Q-1', '99', 'unused value', 'é'], r.randint(1, 2))
    op['rs'] = gen_rs(r, seed)
    return op


def gen_plan(prop, r, tier, run):
    config = {'random0': r.getrandbits(32),
              'caller_edits_results': r.chance(0.4)}
    ops = []
    clients = ['A', 'B', 'C'][:r.weighted([(5, 1), (3, 2), (2, 3)])]
    if prop == 'C14':
        ops = gen_c14(r, clients)
    else:
        n = r.weighted([(4, 1), (3, 2), (2, 3), (1, 4)])
        for _ in range(n):
            if r.chance(0.25):
                ops.append({'op': 'perturb', 'client': r.pick(clients),
                            'n': r.randint(1, 5)})
            op = gen_extract(r, prop, r.pick(clients), risky_rate=0.07)
            prev = [o for o in ops if o['op'] == 'extract']
            if prev and r.chance(0.5):
                # another caller works on (part of) the same strings with
                # other options: state shared between calls (memo, caches)
                # only matters when the strings overlap
                src = r.pick(prev)
                ex = [s for s in src['examples']]
                if src['form'] == 'dict':
                    ex = [s for s, k in zip(src['examples'], src['freqs'])
                          for _ in range(k)]
                if r.chance(0.5):
                    r.shuffle(ex)
                if r.chance(0.3) and len(ex) > 2:
                    ex = ex[:r.randint(2, len(ex))]
                elif r.chance(0.35):
                    # same strings, same total, repeats moved to other
                    # strings
                    cnt = collections.OrderedDict()
                    for x in ex:
                        cnt[x] = cnt.get(x, 0) + 1
                    keys = list(cnt)
                    freqs = list(cnt.values())
                    if len(set(freqs)) == 1 and len(keys) > 1:
                        ex = ex + [keys[0]]
                        cnt[keys[0]] += 1
                        freqs = list(cnt.values())
                    r.shuffle(freqs)
                    ex = [k for k, f in zip(keys, freqs) for _ in range(f)]
                    r.shuffle(ex)
                if r.chance(0.25) and src['form'] == 'list':
                    # characters whose class depends on the dialect (non-
                    # ASCII decimal digits), seen by both callers
                    extra = [r.pick(['٣٤', '५', '５５', 'a٣', '३-1'])
                             for _ in range(r.randint(1, 2))]
                    src['examples'] = list(src['examples']) + extra
                    ex = ex + extra
                op['examples'] = ex
                op['info'] = src.get('info', {})
                if op['form'] == 'dict':
                    op['form'] = 'list'
                    op.pop('freqs', None)
                if op['form'] == 'streams':
                    op['examples'] = [s for s in ex if s is not None] or ['x']
                if op['form'] == 'series':
                    op['examples'] = [s.replace('\x00', '\x01')
                                      if s is not None else s for s in ex]
                elif op['opts'].get('dialect') == src['opts'].get(
                        'dialect') and r.chance(0.6):
                    # ... and under another dialect than the first caller
                    op['opts']['dialect'] = r.pick(
                        [d for d in ('perl', 'portable', 'grep')
                         if d != src['opts'].get('dialect')])
            if prev and op.get('size') and r.chance(0.35):
                # the caller keeps one Size object and hands it to every call
                src = r.pick(prev)
                if src.get('size'):
                    src.setdefault('size_shared', 'S%d' % len(prev))
                    op['size'] = dict(src['size'])
                    op['size_shared'] = src['size_shared']
            if prop in ('C03', 'C14') and op['form'] in ('list', 'dict') \
                    and r.chance(0.15):
                op['rerun_same_object'] = True
            if op['form'] == 'streams' and prop in ('C03', 'C13') \
                    and r.chance(0.35):
                # an earlier call on the same list of lines went wrong
                # part-way (misspelt dialect, unknown keyword): the caller
                # corrects the call and tries again with the same list
                bad = copy.deepcopy(op)
                bad['opts'] = dict(bad['opts'])
                if r.chance(0.6):
                    bad['opts']['dialect'] = 'pearl'
                else:
                    bad['opts']['no_such_option'] = 1
                bad['expect_raise'] = True
                bad['stream_key'] = op['stream_key'] = 'R%d' % len(ops)
                ops.append(bad)
            seps = '\n\r\x0b\x0c\x1c\x1d\x1e\x85\u2028\u2029'
            flines = [s for s in op['examples'] if s is not None and s != ''
                      and not any(c in s for c in seps)]
            if prop in ('C03', 'C13') and flines and r.chance(0.08) \
                    and not any(o.get('stream_key') == op.get('stream_key')
                                for o in ops if op.get('stream_key')):
                # the `rexpy` command run twice in one process (a wrapper
                # calling main()): first with flags on some other file,
                # then plainly on these lines
                for k in ('freqs', 'split', 'series_dtype', 'stream_key',
                          'skip_header', 'header', 'io_fault',
                          'default_encoding', 'rerun_same_object',
                          'size_shared', 'extra_categories'):
                    op.pop(k, None)
                op.update(form='cli', examples=flines, opts={}, size=None,
                          seed=None, cli_flags=[], out_file='cli1.txt')
                other = copy.deepcopy(op)
                other.update(examples=flines[:3], out_file='cli0.txt',
                             no_check=True,
                             cli_flags=r.sample(
                                 ['--header', '-g', '-u', '-q', '--portable',
                                  '-vlf', '--posix', '--java', '--grep'],
                                 r.randint(1, 3)))
                ops.append(other)
            if prop == 'C13':
                op['tagpair'] = True
                op['opts'].pop('tag', None)
                op['tag_by_reextract'] = r.chance(0.25) \
                    and op['form'] != 'cli'
            if prop == 'C18':
                op['cov'] = True
                op['reextract'] = r.chance(0.3)
                op['prune_dot_star'] = r.chance(0.15)
                op['via_copy'] = r.weighted([(6, None), (2, 'deepcopy'),
                                             (2, 'pickle')])
                if op['form'] == 'series':
                    op['form'] = 'list'
                    op.pop('split', None)
                if op['form'] == 'streams':
                    op['form'] = 'list'
                    for k in ('out_file', 'io_fault', 'default_encoding'):
                        op.pop(k, None)
            ops.append(op)
    for i, op in enumerate(ops):
        op['i'] = i
    return {'config': config, 'ops': ops}


def gen_c14(r, clients):
    ops = []
    tgt = gen_extract(r, 'C14', 'A', force_small=r.chance(0.5))
    if tgt['form'] == 'series':
        tgt['form'] = 'list'
        tgt.pop('split', None)
    if tgt['form'] == 'streams':
        tgt['form'] = 'list'
    for k in ('skip_header', 'header', 'out_file', 'io_fault',
              'default_encoding'):
        tgt.pop(k, None)
    if tgt['form'] == 'dict':
        # canonical target is a list; dict is one of the variants
        ex = []
        for s, n in zip(tgt['examples'], tgt['freqs']):
            ex.extend([s] * n)
        r.shuffle(ex)
        tgt['examples'] = ex
        tgt['form'] = 'list'
        del tgt['freqs']
    tgt['group'] = 0
    if r.chance(0.2):
        # characters whose class depends on the dialect
        tgt['examples'] = list(tgt['examples']) + [
            r.pick(['٣٤', '५', '５５', 'a٣', '३-1'])
            for _ in range(r.randint(1, 2))]

    def variant(name, **changes):
        v = copy.deepcopy(tgt)
        v['variant'] = name
        v.update(changes)
        return v

    ops.append(variant('first'))
    if r.chance(0.5):
        # the second history starts in a fresh process: the first call must
        # not have primed whatever state the prefix is supposed to create
        ops.append({'op': 'fresh_process', 'client': 'A'})
    # prefix by other callers
    for _ in range(r.weighted([(1, 0), (4, 1), (3, 2), (2, 4)])):
        if r.chance(0.35):
            ops.append({'op': 'perturb', 'client': r.pick(clients),
                        'n': r.randint(1, 7)})
        else:
            po = gen_extract(r, 'C03', r.pick(clients), max_n=20,
                             force_small=r.chance(0.5))
            if r.chance(0.5):
                # another caller works on the same strings with other
                # options (dialect, tagging, ...): shared caches only matter
                # when the strings overlap
                ex = [s for s in tgt['examples']]
                if r.chance(0.5):
                    r.shuffle(ex)
                po['examples'] = ex
                po['info'] = tgt.get('info', {})
                if po['form'] == 'dict':
                    po['form'] = 'list'
                    po.pop('freqs', None)
                if po['form'] == 'series':
                    po['examples'] = [s.replace('\x00', '\x01')
                                      if s is not None else s for s in ex]
                if po['form'] == 'streams':
                    po['examples'] = [s for s in ex if s is not None] or ['x']
                if po['opts'].get('dialect', 'd') == tgt['opts'].get(
                        'dialect', 'd'):
                    po['opts']['dialect'] = r.pick(['perl', 'portable',
                                                    'grep'])
            if tgt.get('size') and po.get('size') and r.chance(0.4):
                # the prefix caller uses the very Size object of the target
                tgt['size_shared'] = 'S0'
                po['size'] = dict(tgt['size'])
                po['size_shared'] = 'S0'
            ops.append(po)
    if r.chance(0.3):
        # a seeded call that fails part-way (misspelt dialect): the global
        # generator must come out of it as it went in
        bad = variant('failing-call')
        if r.chance(0.4):
            bad['opts'] = dict(bad['opts'], dialect='pearl')
        else:
            # a value that is not a string turns up among the examples
            bad['examples'] = list(bad['examples']) + [
                {'__bad__': r.pick(['bytes', 'tuple'])}]
            if r.chance(0.3):
                bad['form'] = 'series'
                bad['examples'] = [x.replace('\x00', '\x01')
                                   if isinstance(x, str) else x
                                   for x in bad['examples']]
                bad['opts'] = {}
                bad['size'] = None
                bad['series_dtype'] = 'object'
                bad['split'] = 1
        bad['expect_raise'] = True
        bad['seed'] = r.pick([0, 1, 7, 2 ** 32 - 1, r.randint(2, 10 ** 6)])
        bad.pop('group', None)
        ops.append(bad)
    ops.append(variant('after_prefix'))
    if r.chance(0.7):
        ops.append(variant('again'))
        if r.chance(0.2):
            # ... by running a kept extractor a second time
            ops[-1]['rerun_same_object'] = True
    ex = tgt['examples']
    if r.chance(0.7):
        p = list(ex)
        r.shuffle(p)
        ops.append(variant('permuted', examples=p))
    if r.chance(0.6):
        c = collections.OrderedDict()
        for s in ex:
            if s is not None:
                c[s] = c.get(s, 0) + 1
        if c:
            keys = list(c.keys())
            if r.chance(0.5):
                r.shuffle(keys)
            ops.append(variant('dict', form='dict', examples=keys,
                               freqs=[c[k] for k in keys]))
    if r.chance(0.6) and ex:
        rep = list(ex)
        for _ in range(r.randint(1, 4)):
            s = r.pick(ex)
            rep.insert(r.randrange(len(rep) + 1), s)
        ops.append(variant('repeated', examples=rep))
    if r.chance(0.3) and any(s is not None for s in ex):
        # the same strings through the list-of-lines entry point, the
        # caller passing one list object twice
        lines = [s for s in ex if s is not None]
        sh = r.chance(0.7)
        of = 'out.txt' if r.chance(0.5) else None
        if of:
            # the results go to a file that holds the (longer) results of
            # an earlier, unrelated run
            ops.append({'op': 'stale_out', 'client': 'A', 'out_file': of,
                        'lines': ['^[A-Z]{2}\\-[0-9]{3,5}\\ earlier\\ run$']
                        * r.randint(2, 6)})
        if r.chance(0.4):
            # a first attempt on that list of lines goes wrong part-way
            bad = variant('streams-failing', form='streams', examples=lines,
                          skip_header=sh, header='code', stream_key='K0')
            bad['opts'] = dict(bad['opts'], dialect='pearl')
            bad['expect_raise'] = True
            bad.pop('group', None)
            ops.append(bad)
        for nm in ('streams', 'streams-again'):
            v = variant(nm, form='streams', examples=lines,
                        skip_header=sh, header='code', stream_key='K0')
            if of:
                v['out_file'] = of
            ops.append(v)
    seps = '\n\r\x0b\x0c\x1c\x1d\x1e\x85\u2028\u2029'
    flines = [s for s in ex if s is not None and s != ''
              and not any(c in s for c in seps)]
    if r.chance(0.25) and flines:
        # the `rexpy` command run twice in one process (a wrapper calling
        # main()): first with flags on some other file, then plainly on
        # these lines - which must give what the library gives for them
        ops.append(variant('plain-list2', examples=flines, opts={},
                           size=None, seed=None, group=2))
        other = variant('cli-flagged', form='cli', examples=flines[:3],
                        opts={}, size=None, seed=None,
                        cli_flags=r.sample(['--header', '-g', '-u', '-q',
                                            '--portable', '-vlf'],
                                           r.randint(1, 3)),
                        out_file='cli0.txt')
        other.pop('group', None)
        ops.append(other)
        ops.append(variant('cli-plain', form='cli', examples=flines,
                           opts={}, size=None, seed=None, cli_flags=[],
                           out_file='cli1.txt', group=2))
    if r.chance(0.35):
        # the same strings as Pandas columns (pdextract takes no options, so
        # its list-form peer is a call with default options and sizes)
        exs = [s.replace('\x00', '\x01') if s is not None else s
               for s in ex]
        seed = tgt.get('seed')
        ops.append(variant('plain-list', examples=exs, opts={}, size=None,
                           group=1))
        dt = r.weighted([(2, 'object'), (2, 'category'),
                         (3, 'category_unused'), (1, 'str')])
        sv = variant('series-' + dt, examples=exs, opts={}, size=None,
                     group=1, form='series', split=r.randint(1, 2),
                     series_dtype=dt)
        if dt == 'category_unused':
            # categories declared but not present in any row (left behind
            # after filtering, or declared up front)
            sv['extra_categories'] = r.sample(
                ['zzzz', 'Q-1', '99', 'unused value', 'é'], r.randint(1, 2))
        ops.append(sv)
    return ops


# --------------------------------------------------------------------------
# randomness seam
# --------------------------------------------------------------------------

def _shape(item):
    s = item[0] if isinstance(item, tuple) else item
    if not isinstance(s, str):
        return ()
    out = []
    for ch in s:
        k = ('a' if ch.isalpha() else 'd' if ch.isdigit()
             else 's' if ch.isspace() else 'p')
        if not out or out[-1] != k:
            out.append(k)
    return tuple(out)


class SimRandom(object):
    """Stands in for the `random` module inside tdda.rexpy.rexpy."""

    def __init__(self):
        self.mode = 'real'
        self.rs = None
        self.calls = []
        self.seed_calls = 0

    def begin(self, rs):
        self.rs = rs or {'mode': 'real'}
        self.mode = self.rs['mode']
        self.calls = []
        self.seed_calls = 0

    def sample(self, population, k, **kw):
        j = len(self.calls)
        self.calls.append((len(population), k))
        if self.mode != 'scripted':
            return random.sample(population, k, **kw)
        pop = list(population)
        adv = self.rs.get('adv')
        if adv and all(isinstance(x, tuple) for x in pop):
            cnt = collections.Counter(_shape(x) for x in pop)
            idx = sorted(range(len(pop)),
                         key=lambda i: ((-cnt[_shape(pop[i])]
                                         if adv == 'common'
                                         else cnt[_shape(pop[i])]), i))
            return [pop[i] for i in idx[:k]]
        rr = random.Random(simrng.derive(self.rs['seed'], j))
        return rr.sample(pop, k)

    def seed(self, *a, **kw):
        self.seed_calls += 1
        return random.seed(*a, **kw)

    def __getattr__(self, name):
        return getattr(random, name)


# --------------------------------------------------------------------------
# reference model helpers
# --------------------------------------------------------------------------

def kept_examples(op):
    """Counter of the examples the options do not discard (model side)."""
    opts = op.get('opts', {})
    out = collections.OrderedDict()
    if op['form'] == 'dict':
        pairs = zip(op['examples'], op['freqs'])
    else:
        pairs = ((s, 1) for s in op['examples'])
    for s, n in pairs:
        if s is None or n == 0:
            continue
        t = s.strip() if opts.get('strip') else s
        if opts.get('remove_empties') and t == '':
            continue
        out[t] = out.get(t, 0) + n
    return out


def char_tag(s):
    cats = {unicodedata.category(c) for c in s}
    if any(unicodedata.category(c) == 'Nd' and ord(c) > 127 for c in s):
        return 'nd-nonascii'
    if 'No' in cats:
        return 'no-digitlike'
    if 'Nl' in cats:
        return 'nl-letternumber'
    if 'Mn' in cats:
        return 'mn-combining'
    if 'Cc' in cats and any(c not in '\t\n\r\x0b\x0c' for c in s
                            if unicodedata.category(c) == 'Cc'):
        return 'control'
    if any(c in '^-]\\[' for c in s):
        return 'bracket-special'
    if any(ord(c) > 127 for c in s):
        return 'nonascii'
    if any(c.isspace() for c in s):
        return 'ascii-space'
    return 'ascii'


def compile_all(rexes):
    out = []
    for x in rexes:
        try:
            out.append(re.compile(x, RE_FLAGS))
        except re.error as e:
            out.append(e)
    return out


def matches(cr, s):
    return (not isinstance(cr, Exception)) and cr.match(s) is not None


# --------------------------------------------------------------------------
# execution
# --------------------------------------------------------------------------

class Ctx(object):
    pass


def execute(plan):
    from tdda.rexpy import rexpy
    prop = plan['property']
    ctx = Ctx()
    ctx.rexpy = rexpy
    ctx.prop = prop
    ctx.events = []
    ctx.violations = []
    ctx.stats = {'faults': collections.Counter(),
                 'probes': collections.Counter(),
                 'abstain': collections.Counter(),
                 'checks': collections.Counter()}
    ctx.states = set()
    ctx.shape = []
    ctx.nontrivial = False
    ctx.groups = {}
    ctx.plan_config = plan.get('config') or {}

    simr = SimRandom()
    saved_random = rexpy.random
    saved_batch = rexpy.Extractor.batch_extract
    saved_state = random.getstate()
    attempts = [0]

    def counting_batch(self):
        attempts[0] += 1
        return saved_batch(self)

    rexpy.random = simr
    rexpy.Extractor.batch_extract = counting_batch
    rexpy.memo.clear()
    rexpy.nCalls = 0
    random.seed(plan['config']['random0'])
    ctx.simr = simr
    ctx.attempts = attempts
    world = None
    if any(op.get('out_file') for op in plan['ops']):
        from sim.world import World
        world = World(chdir=False)
        ctx.W = world.__enter__()
    try:
        clients_seen = []
        for op in plan['ops']:
            if op['client'] not in clients_seen:
                clients_seen.append(op['client'])
            if op['op'] == 'perturb':
                for _ in range(op['n']):
                    random.random()
                ctx.stats['faults']['prng_perturbed_by_other_caller'] += 1
                ctx.events.append({'i': op['i'], 'op': 'perturb'})
                ctx.shape.append('P')
                ctx.nontrivial = True
            elif op['op'] == 'fresh_process':
                from sim import stateguard
                stateguard.restore()
                rexpy.memo.clear()
                ctx.__dict__.pop('sizes', None)
                ctx.__dict__.pop('stream_lists', None)
                random.seed(plan['config']['random0'])
                ctx.events.append({'i': op['i'], 'op': 'fresh_process'})
                ctx.shape.append('F')
            elif op['op'] == 'stale_out':
                with io.open(ctx.W.path('data', op['out_file']), 'w',
                             encoding='utf-8') as f:
                    f.write('\n'.join(op['lines']) + '\n')
                ctx.stats['faults']['stale_results_file_planted'] += 1
                ctx.events.append({'i': op['i'], 'op': 'stale_out'})
                ctx.shape.append('S')
            elif op['op'] == 'extract':
                run_extract_op(ctx, op)
        if len(clients_seen) > 1:
            ctx.nontrivial = True
        if prop == 'C14':
            check_c14_groups(ctx, plan)
    finally:
        if world is not None:
            world.__exit__(None, None, None)
        rexpy.random = saved_random
        rexpy.Extractor.batch_extract = saved_batch
        rexpy.memo.clear()
        rexpy.nCalls = 0
        random.setstate(saved_state)
    inter = ''.join(op['client'] + (op['op'][0]) for op in plan['ops'])
    return {'events': ctx.events, 'violations': ctx.violations,
            'stats': {k: dict(v) for k, v in ctx.stats.items()},
            'shape': '|'.join(ctx.shape), 'nontrivial': ctx.nontrivial,
            'states': sorted(ctx.states), 'interleaving': inter,
            'sim_time': 0}


def violation(ctx, op, clause, tag, detail):
    sig = '%s/%s/%s' % (ctx.prop, clause, tag)
    ctx.violations.append({'clause': clause, 'signature': sig,
                           'detail': detail, 'at_op': op['i']})


BAD_VALUES = {'bytes': b'\xff\xfe raw bytes', 'tuple': ('x', 1)}


def unmark(ex):
    return [BAD_VALUES[x['__bad__']] if isinstance(x, dict) else x
            for x in ex]


def build_examples(op):
    if any(isinstance(x, dict) for x in op['examples']):
        op = dict(op, examples=unmark(op['examples']))
    if op['form'] == 'dict':
        return collections.OrderedDict(zip(op['examples'], op['freqs']))
    if op['form'] == 'series':
        import pandas as pd
        ex = op['examples']
        k = op.get('split', 1)
        dt = op.get('series_dtype', 'object')

        def col(vals):
            if dt == 'object':
                return pd.Series(vals, dtype=object)
            if dt == 'str':
                return pd.Series(vals, dtype='str')
            used = []
            for v in vals:
                if v is not None and v not in used:
                    used.append(v)
            cats = used + [c for c in op.get('extra_categories', [])
                           if c not in used]
            return pd.Series(pd.Categorical(vals, categories=cats))
        if k == 1:
            return col(ex)
        h = len(ex) // 2
        return [col(ex[:h]), col(ex[h:])]
    return list(op['examples'])


def call_extract(ctx, op, tag=None, as_object=False):
    """One real call through the public API.  Returns (outcome, value,
    observations)."""
    rexpy = ctx.rexpy
    opts = dict(op.get('opts', {}))
    if tag is not None:
        opts['tag'] = tag
    size = rexpy.Size(**op['size']) if op.get('size') else None
    if size is not None and op.get('size_shared'):
        sizes = ctx.__dict__.setdefault('sizes', {})
        if op['size_shared'] in sizes:
            size = sizes[op['size_shared']]
            ctx.stats['probes']['same_size_object_passed_again'] += 1
        else:
            sizes[op['size_shared']] = size
    ctx.simr.begin(op.get('rs'))
    ctx.attempts[0] = 0
    before = random.getstate()
    if op['form'] == 'cli':
        ex = list(op['examples'])
    elif op['form'] == 'streams':
        # one list object per op (or per stream_key): a caller that reads
        # its lines once and analyses them more than once
        held = ctx.__dict__.setdefault('stream_lists', {})
        key = op.get('stream_key', op['i'])
        if key not in held:
            held[key] = ([op['header']] if op.get('skip_header') else []) \
                + list(op['examples'])
        else:
            ctx.stats['probes']['same_line_list_passed_again'] += 1
        ex = held[key]
    else:
        ex = build_examples(op)
    ctx.last_input = ex
    try:
        if op['form'] == 'cli':
            inp = ctx.W.path('data', 'in_' + op['out_file'])
            outp = ctx.W.path('data', op['out_file'])
            with io.open(inp, 'w', encoding='utf-8', newline='\n') as f:
                f.write(''.join(x + '\n' for x in ex))
            saved_argv = sys.argv
            sys.argv = ['rexpy'] + list(op.get('cli_flags') or []) + (
                ['-g'] if opts.get('tag') else []) + [inp, outp]
            try:
                rexpy.main()
            finally:
                sys.argv = saved_argv
            with io.open(outp, encoding='utf-8', newline='\n') as f:
                t = f.read()
            val = t.split('\n')[:-1] if t.endswith('\n') else t.split('\n')
            if t == '':
                val = []
            ctx.stats['probes']['rexpy_command_run_in_process'] += 1
        elif op['form'] == 'series':
            val = rexpy.pdextract(ex, seed=op.get('seed'))
        elif op['form'] == 'streams' and op.get('out_file') and not any(
                c in x for x in ex if isinstance(x, str)
                for c in '\n\r\x0b\x0c\x1c\x1d\x1e\x85\u2028\u2029'):
            # (one expression per line: only for examples that could have
            # come from lines of a file themselves)
            # results written to a file (what `rexpy IN OUT` does); the
            # file may hold the output of an earlier run
            outp = ctx.W.path('data', op['out_file'])
            if os.path.exists(outp):
                ctx.stats['probes']['output_file_of_earlier_run_present'] += 1
            if op.get('io_fault'):
                # the device fills up: the results cannot be written out
                from sim import fsaudit
                seam = fsaudit.FsSeam([ctx.W.root])
                with seam:
                    seam.begin_op({'kind': 'flush_error', 'site': 0,
                                   'errno': 28, 'short': 0, 'flush': True},
                                  None)
                    try:
                        rexpy.rexpy_streams(
                            ex, outp, skip_header=bool(op.get('skip_header')),
                            size=size, seed=op.get('seed'), **opts)
                    finally:
                        import gc
                        gc.collect()
                        for x in seam.fired:
                            ctx.stats['faults']['io_' + x[0]] += 1
                        seam.begin_op(None, None)
            elif op.get('default_encoding'):
                # a process whose preferred text encoding is ASCII / latin-1:
                # either the results are written and say what they should,
                # or the caller is told they could not be
                from sim.defaultenc import DefaultEncoding
                with DefaultEncoding(op['default_encoding'],
                                     ctx.stats['faults']):
                    rexpy.rexpy_streams(
                        ex, outp, skip_header=bool(op.get('skip_header')),
                        size=size, seed=op.get('seed'), **opts)
            else:
                rexpy.rexpy_streams(ex, outp,
                                    skip_header=bool(op.get('skip_header')),
                                    size=size, seed=op.get('seed'), **opts)
            with io.open(outp, encoding=op.get('default_encoding')
                         if not op.get('io_fault') else 'utf-8',
                         newline='\n') as f:
                t = f.read()
            val = t.split('\n')[:-1] if t.endswith('\n') else t.split('\n')
            if t == '':
                val = []
        elif op['form'] == 'streams':
            val = rexpy.rexpy_streams(ex, False,
                                      skip_header=bool(op.get('skip_header')),
                                      size=size, seed=op.get('seed'), **opts)
        else:
            val = rexpy.extract(ex, size=size, seed=op.get('seed'),
                                as_object=as_object, **opts)
        outcome = 'ok'
    except WatchdogTimeout:
        raise
    except BaseException as e:
        if isinstance(e, (KeyboardInterrupt, SystemExit)):
            raise
        outcome = 'exc'
        val = e
    after = random.getstate()
    obs = {'samples': list(ctx.simr.calls), 'attempts': ctx.attempts[0],
           'state_same': before == after}
    if outcome == 'ok' and isinstance(val, list) and \
            ctx.plan_config.get('caller_edits_results'):
        # the caller goes on to use the list it was given as its own
        # (found = extract(a); found += extract(b)): what it does to it
        # afterwards is no business of later calls
        got = list(val)
        val.append('<appended by the caller>')
        ctx.stats['probes']['returned_list_edited_by_caller'] += 1
        val = got
    return outcome, val, obs


def exc_tag(e):
    import traceback
    tb = traceback.extract_tb(e.__traceback__)
    fn = '?'
    for fr in tb:
        if '/tdda/' in fr.filename:
            fn = fr.name
    return '%s@%s' % (type(e).__name__, fn)


def regime(op, obs):
    if not obs['samples']:
        return 'nosample'
    if op.get('seed') is not None:
        return 'sampled-seeded'
    return 'sampled-' + (op.get('rs', {}).get('mode', 'real'))


def note_faults(ctx, op, obs):
    rs = op.get('rs') or {}
    if obs['samples']:
        ctx.stats['probes']['sampled_path_reached'] += 1
        ctx.nontrivial = True
        if op.get('seed') is not None:
            ctx.stats['faults']['seeded_stream_sample'] += len(obs['samples'])
        elif rs.get('mode') == 'scripted':
            if rs.get('adv'):
                ctx.stats['faults']['adversarial_sample'] += len(
                    obs['samples'])
            else:
                ctx.stats['faults']['uniform_scripted_sample'] += len(
                    obs['samples'])
        else:
            ctx.stats['faults']['global_stream_sample'] += len(obs['samples'])
    if obs['attempts'] >= 2:
        ctx.stats['probes']['attempts>=2'] += 1
    if obs['attempts'] >= 3:
        ctx.stats['probes']['attempts>=3'] += 1
    if len(op['examples']) and any(
            s is not None and len(s) > 99 for s in op['examples']):
        ctx.stats['probes']['long_many_fragment_strings'] += 1
    if op.get('info', {}).get('risky'):
        ctx.stats['probes']['risky_unicode_classes_enabled'] += 1


def run_extract_op(ctx, op):
    prop = ctx.prop
    if op.get('expect_raise'):
        return run_failing_call(ctx, op)
    kept = kept_examples(op) if op['form'] != 'series' else None
    if op['form'] == 'series':
        kept = collections.OrderedDict()
        for s in op['examples']:
            if s is not None:
                kept[s] = kept.get(s, 0) + 1

    if op.get('no_check'):
        # an earlier, unrelated command in the same process: run, not judged
        outcome, val, obs = call_extract(ctx, op)
        ctx.events.append({'i': op['i'], 'op': 'extract',
                           'variant': 'earlier-command', 'outcome': outcome,
                           'rex': list(val) if outcome == 'ok' else None})
        return
    if op.get('tagpair'):
        return run_tagpair(ctx, op, kept)
    if op.get('cov'):
        return run_cov(ctx, op, kept)
    return run_plain(ctx, op, kept)


def run_failing_call(ctx, op):
    if True:
        outcome, val, obs = call_extract(ctx, op)
        ctx.stats['faults']['earlier_call_failed_part_way'] += 1
        ctx.nontrivial = True
        ctx.events.append({'i': op['i'], 'op': 'failed-call',
                           'outcome': outcome,
                           'exc': exc_tag(val) if outcome == 'exc' else None})
        ctx.shape.append('%sX' % op['client'])
        if ctx.prop == 'C14' and op.get('seed') is not None:
            ctx.stats['checks']['prng_state_conserved_checks'] += 1
            if not obs['state_same']:
                violation(ctx, op, 'prng-state', 'call-raised',
                          'global random state differs after a seeded call '
                          'that raised %s' % (exc_tag(val)
                                              if outcome == 'exc' else '-'))
        return


def run_plain(ctx, op, kept):
    prop = ctx.prop
    if op.get('rerun_same_object') and op['form'] in ('list', 'dict') \
            and prop in ('C03', 'C14'):
        # the caller keeps the extractor and runs it a second time (after
        # looking at the first result, or changing its mind about nothing)
        outcome, val, obs = call_extract(ctx, op, as_object=True)
        if outcome == 'ok':
            x = val
            try:
                ctx.simr.begin(op.get('rs'))
                # the application draws some numbers of its own in between
                for _ in range(3):
                    random.random()
                st0 = random.getstate()
                try:
                    x.extract()
                finally:
                    st1 = random.getstate()
                val = list(x.results.rex) if x.results else []
                ctx.stats['probes']['extractor_run_a_second_time'] += 1
                if prop == 'C14' and op.get('seed') is not None:
                    ctx.stats['checks']['prng_state_conserved_checks'] += 1
                    if st0 != st1:
                        violation(ctx, op, 'prng-state',
                                  'second-run-of-kept-extractor',
                                  'global random state differs after '
                                  'running a seeded extractor a second '
                                  'time (the generator had advanced since '
                                  'the extractor was made)')
            except WatchdogTimeout:
                raise
            except BaseException as e:
                if isinstance(e, (KeyboardInterrupt, SystemExit)):
                    raise
                outcome, val = 'exc', e
    else:
        outcome, val, obs = call_extract(ctx, op)
    note_faults(ctx, op, obs)
    reg = regime(op, obs)
    ev = {'i': op['i'], 'op': 'extract', 'variant': op.get('variant'),
          'outcome': outcome, 'obs': obs, 'regime': reg}
    if outcome == 'exc':
        ev['exc'] = exc_tag(val)
        rex = None
    else:
        rex = list(val)
        ev['rex'] = rex
    ctx.events.append(ev)
    ctx.states.add('%d/%s/%s/%s' % (obs['attempts'], obs['samples'],
                                    len(rex) if rex is not None else 'x',
                                    ','.join(op.get('info', {})
                                             .get('classes', []))))
    ctx.shape.append('%s%s:%s:%s:a%d:n%s' % (
        op['client'], op['form'][0], op.get('variant') or '-', reg,
        obs['attempts'], 'x' if rex is None else min(len(rex), 5)))

    if prop == 'C03':
        check_c03(ctx, op, kept, outcome, val, rex, reg)
    if prop == 'C14':
        check_c14_state(ctx, op, obs, reg)
        if 'group' in op:
            ctx.groups.setdefault(op['group'], []).append(
                (op, outcome, rex, ev.get('exc'), obs, reg))
    return ev


def reported_io_fault(e):
    from sim import fsaudit
    return isinstance(e, (fsaudit.FsFaultInjected, UnicodeEncodeError))


def check_c03(ctx, op, kept, outcome, val, rex, reg):
    ctx.stats['checks']['extract_calls'] += 1
    if not kept:
        ctx.stats['abstain']['no_kept_examples'] += 1
        return
    if outcome == 'exc' and reported_io_fault(val):
        # the caller was told that the results could not be written
        ctx.stats['abstain']['write_fault_reported_to_caller'] += 1
        return
    if outcome == 'exc':
        violation(ctx, op, 'raises', '%s/%s' % (reg, exc_tag(val)),
                  'extract raised %r on %d kept examples' % (val, len(kept)))
        return
    crs = compile_all(rex)
    bad = [s for s in kept if not any(matches(c, s) for c in crs)]
    ctx.stats['checks']['examples_checked'] += len(kept)
    if bad:
        tags = sorted({char_tag(s) for s in bad})
        d = op.get('opts', {}).get('dialect', 'default')
        dial = 'perl' if d in ('perl', None) else 'portable-or-grep'
        violation(ctx, op, 'unmatched', '%s/%s/%s' % (reg, dial,
                                                      '+'.join(tags)),
                  'examples not matched by any returned expression: %r\n'
                  'returned: %r\nopts=%r size=%r seed=%r'
                  % (bad[:5], rex, op.get('opts'), op.get('size'),
                     op.get('seed')))
        return
    opts = op.get('opts', {})
    if opts.get('strip') and op['form'] != 'series':
        # ... and as it was supplied (rexpy pads with \s* when it strips)
        if op['form'] == 'dict':
            sup = [s for s, n in zip(op['examples'], op['freqs'])
                   if s is not None and n]
        else:
            sup = [s for s in op['examples'] if s is not None]
        sup = [s for s in sup if s != s.strip() and not (
            opts.get('remove_empties') and s.strip() == '')]
        bad = [s for s in sup if not any(matches(c, s) for c in crs)]
        ctx.stats['checks']['padded_examples_checked'] += len(sup)
        if sup:
            ctx.stats['probes']['padded_examples_with_strip'] += 1
        if bad:
            blank = all(s.strip() == '' for s in bad)
            violation(ctx, op, 'unmatched-as-supplied', '%s/%s' % (
                reg, 'blank' if blank else 'padded'),
                'with strip, examples as supplied are not matched by any '
                'returned expression: %r\nreturned: %r\nopts=%r'
                % (bad[:5], rex, opts))


def check_c14_state(ctx, op, obs, reg):
    if op.get('seed') is not None:
        ctx.stats['checks']['prng_state_conserved_checks'] += 1
        if not obs['state_same']:
            violation(ctx, op, 'prng-state', reg,
                      'global random state differs after a seeded call '
                      '(samples drawn: %r)' % (obs['samples'],))


def check_c14_groups(ctx, plan):
    for g, members in ctx.groups.items():
        base = members[0]
        any_sample = any(m[4]['samples'] for m in members)
        seeded = base[0].get('seed') is not None
        for m in members[1:]:
            op, outcome, rex, exc, obs, reg = m
            v = op.get('variant')
            bv = base[0].get('variant')
            same_input = v in ('after_prefix', 'again') and bv in (
                'first', 'after_prefix', 'again')
            if any_sample:
                if not seeded:
                    ctx.stats['abstain']['unseeded_sampling_equality'] += 1
                    continue
                if not same_input:
                    ctx.stats['abstain']['seeded_sampling_order_form'] += 1
                    continue
            ctx.stats['checks']['result_equalities'] += 1
            a = ('exc', base[3]) if base[1] == 'exc' else ('ok', base[2])
            b = ('exc', exc) if outcome == 'exc' else ('ok', rex)
            if a != b:
                r = 'sampled-seeded' if any_sample else 'nosample'
                violation(ctx, op, 'result-differs',
                          '%s/%s-vs-%s' % (r, bv, v),
                          'variant %s gave %r; variant %s gave %r'
                          % (bv, a, v, b))


def run_tagpair(ctx, op, kept):
    """C13: untagged and tagged from the same memo/PRNG snapshot."""
    rexpy = ctx.rexpy
    memo0 = dict(rexpy.memo)
    st0 = random.getstate()
    if op.get('tag_by_reextract') and op['form'] in ('list', 'dict'):
        # one extractor object: untagged first, then tag switched on and
        # extract() called again on the same object
        o1, x, obs1 = call_extract(ctx, op, tag=False, as_object=True)
        st1 = random.getstate()
        v1 = x
        if o1 == 'ok':
            v1 = list(x.results.rex) if x.results else []
        o2, v2, obs2 = o1, v1, obs1
        if o1 == 'ok':
            rexpy.memo.clear()
            rexpy.memo.update(memo0)
            random.setstate(st0)
            ctx.simr.begin(op.get('rs'))
            try:
                x.tag = True
                x.extract()
                o2, v2 = 'ok', (list(x.results.rex) if x.results else [])
            except WatchdogTimeout:
                raise
            except BaseException as e:
                if isinstance(e, (KeyboardInterrupt, SystemExit)):
                    raise
                o2, v2 = 'exc', e
            obs2 = dict(obs1)
            ctx.stats['probes']['tagged_by_re_extraction'] += 1
        random.setstate(st1)
    else:
        o1, v1, obs1 = call_extract(ctx, op, tag=False)
        st1 = random.getstate()
        rexpy.memo.clear()
        rexpy.memo.update(memo0)
        random.setstate(st0)
        o2, v2, obs2 = call_extract(ctx, op, tag=True)
        random.setstate(st1)
    note_faults(ctx, op, obs1)
    reg = regime(op, obs1)
    ev = {'i': op['i'], 'op': 'tagpair', 'o1': o1, 'o2': o2,
          'obs1': obs1, 'obs2': obs2}
    r1 = list(v1) if o1 == 'ok' else None
    r2 = list(v2) if o2 == 'ok' else None
    ev['untagged'] = r1 if r1 is not None else exc_tag(v1)
    ev['tagged'] = r2 if r2 is not None else exc_tag(v2)
    ctx.events.append(ev)
    ctx.states.add('%d/%s/%s' % (obs1['attempts'], obs1['samples'],
                                 len(r1) if r1 is not None else 'x'))
    ctx.shape.append('%sT%s:%s:a%d:n%s' % (
        op['client'], op['form'][0], reg, obs1['attempts'],
        'x' if r1 is None else min(len(r1), 5)))
    ctx.stats['checks']['tagpairs'] += 1
    opts = op.get('opts', {})
    for which, o, v, r in (('untagged', o1, v1, r1), ('tagged', o2, v2, r2)):
        if o == 'exc' and reported_io_fault(v):
            ctx.stats['abstain']['write_fault_reported_to_caller'] += 1
            continue
        if o == 'exc':
            if kept:
                violation(ctx, op, 'raises', '%s/%s/%s' % (which, reg,
                                                           exc_tag(v)),
                          'extract(tag=%s) raised %r' % (which == 'tagged', v))
            continue
        check_c13_list(ctx, op, kept, r, which, reg)
    if r1 is not None and r2 is not None and kept:
        c1, c2 = compile_all(r1), compile_all(r2)
        if any(isinstance(c, Exception) for c in c1 + c2):
            return
        # "the same examples": the kept (cleaned) ones and the strings as
        # they were supplied (rexpy pads with \s* when it had to strip)
        universe = list(kept) + [s for s in op['examples']
                                 if isinstance(s, str) and s not in kept]
        m1 = {s for s in universe if any(matches(c, s) for c in c1)}
        m2 = {s for s in universe if any(matches(c, s) for c in c2)}
        if m1 != m2:
            diff = sorted(m1 ^ m2)
            violation(ctx, op, 'tag-union', '%s/%s' % (
                reg, '+'.join(sorted({char_tag(s) for s in diff}))),
                'tagged and untagged lists match different examples: %r\n'
                'untagged=%r\ntagged=%r' % (diff[:5], r1, r2))
        elif len(r1) != len(r2):
            violation(ctx, op, 'tag-count', reg,
                      'untagged returned %d expressions, tagged %d:\n%r\n%r'
                      % (len(r1), len(r2), r1, r2))
        else:
            for a, b, x, y in zip(c1, c2, r1, r2):
                ma = {s for s in universe if matches(a, s)}
                mb = {s for s in universe if matches(b, s)}
                if ma != mb:
                    violation(ctx, op, 'tag-pairwise', reg,
                              'expression %r and its tagged form %r match '
                              'different examples: %r' % (x, y,
                                                          sorted(ma ^ mb)[:5]))
                    break


def end_anchored(x):
    """Ends with an end anchor: a dollar that is not itself escaped."""
    if not x.endswith('$'):
        return False
    body = x[:-1]
    return (len(body) - len(body.rstrip('\\'))) % 2 == 0


def check_c13_list(ctx, op, kept, rex, which, reg):
    opts = op.get('opts', {})
    if not kept:
        ctx.stats['checks']['empty_input'] += 1
        if rex:
            violation(ctx, op, 'nonempty-for-empty-input', which,
                      'no kept examples but %r returned' % (rex,))
        return
    crs = compile_all(rex)
    for x, c in zip(rex, crs):
        if isinstance(c, Exception):
            violation(ctx, op, 'does-not-compile', '%s/%s' % (which, reg),
                      '%r: %s' % (x, c))
            return
        if not (x.startswith('^') and end_anchored(x)):
            violation(ctx, op, 'not-anchored', which, '%r' % x)
            return
    if len(set(rex)) != len(rex):
        violation(ctx, op, 'duplicate-expression', '%s/%s' % (which, reg),
                  '%r' % (rex,))
    if len(rex) > len(kept):
        violation(ctx, op, 'more-expressions-than-examples',
                  '%s/%s' % (which, reg),
                  '%d expressions for %d distinct examples: %r'
                  % (len(rex), len(kept), rex))
    for x, c in zip(rex, crs):
        if not any(matches(c, s) for s in kept):
            violation(ctx, op, 'matches-no-example', '%s/%s/%s' % (
                which, reg, '+'.join(sorted({char_tag(s) for s in kept}))[:60]),
                '%r matches none of %r' % (x, list(kept)[:8]))
            break
    ctx.stats['checks']['expressions_checked'] += len(rex)


def run_cov(ctx, op, kept):
    """C18: coverage figures against independent counts."""
    outcome, x, obs = call_extract(ctx, op, as_object=True)
    note_faults(ctx, op, obs)
    reg = regime(op, obs)
    ev = {'i': op['i'], 'op': 'cov', 'outcome': outcome, 'obs': obs}
    ctx.shape.append('%sC%s:%s:a%d' % (op['client'], op['form'][0], reg,
                                       obs['attempts']))
    if outcome == 'exc':
        ev['exc'] = exc_tag(x)
        ctx.events.append(ev)
        ctx.stats['abstain']['extract_raised(C03 matter)'] += 1
        return
    if not x.results:
        ev['rex'] = []
        ctx.events.append(ev)
        ctx.stats['abstain']['no_results'] += 1
        return
    rex = list(x.results.rex)
    ev['rex'] = rex
    if op.get('via_copy'):
        # the figures are asked of a copy of the extractor (sent back from
        # a worker process, or kept aside with copy.deepcopy)
        try:
            if op['via_copy'] == 'pickle':
                import pickle
                x = pickle.loads(pickle.dumps(x))
            else:
                x = copy.deepcopy(x)
            ctx.stats['probes']['figures_asked_of_a_%s_copy'
                                % op['via_copy']] += 1
        except WatchdogTimeout:
            raise
        except Exception:
            ctx.stats['abstain']['extractor_cannot_be_copied'] += 1
    if ctx.plan_config.get('caller_edits_results') and \
            isinstance(ctx.last_input, (list, dict)):
        # the caller goes on using its own container (a buffer that keeps
        # growing, or is recycled for the next batch) before it asks the
        # extractor for its figures
        inp = ctx.last_input
        if isinstance(inp, list):
            if op['i'] % 2:
                inp.extend(['added later', '12345', 'Zz-9'])
            else:
                inp[:] = ['recycled']
        else:
            inp['added later'] = 3
        ctx.stats['probes']['input_container_edited_after_extraction'] += 1
    crs = compile_all(rex)
    if any(isinstance(c, Exception) for c in crs):
        ctx.events.append(ev)
        ctx.stats['abstain']['uncompilable(C13 matter)'] += 1
        return
    ctx.states.add('%d/%s/%s' % (obs['attempts'], obs['samples'], len(rex)))
    total = sum(kept.values())
    has_null = any(s is None for s in op['examples'])

    def check_round(rex, crs, reg, ev):
        for dedup in (False, True):
            res = {}
            for name, fn in (('coverage', x.coverage),
                             ('incremental', x.incremental_coverage),
                             ('full', x.full_incremental_coverage),
                             ('n_examples', x.n_examples)):
                try:
                    res[name] = fn(dedup=dedup)
                except WatchdogTimeout:
                    raise
                except Exception as e:
                    res[name] = e
                    violation(ctx, op, 'raises', '%s/%s/%s' % (name, reg,
                                                               exc_tag(e)),
                              '%s(dedup=%s) raised %r' % (name, dedup, e))
            ev['dedup=%s' % dedup] = {
                'coverage': res['coverage'] if isinstance(res['coverage'], list)
                else repr(res['coverage']),
                'incremental': (list(res['incremental'].items())
                                if hasattr(res['incremental'], 'items') else
                                repr(res['incremental'])),
                'n_examples': (res['n_examples'] if isinstance(res['n_examples'],
                                                               int)
                               else repr(res['n_examples']))}
            w = (lambda s: 1) if dedup else (lambda s: kept[s])
            want_total = len(kept) if dedup else total
            ctx.stats['checks']['coverage_calls'] += 1
            # coverage
            cov = res['coverage']
            if isinstance(cov, list):
                want = [sum(w(s) for s in kept if matches(c, s)) for c in crs]
                if list(cov) != want:
                    violation(ctx, op, 'coverage-count', '%s/dedup=%s' % (reg,
                                                                         dedup),
                              'coverage(dedup=%s)=%r, independent count=%r for '
                              '%r over %r' % (dedup, cov, want, rex,
                                              list(kept.items())[:10]))
            # incremental
            inc = res['incremental']
            if hasattr(inc, 'items'):
                items = list(inc.items())
                vals = [v for _, v in items]
                if any(vals[i] < vals[i + 1] for i in range(len(vals) - 1)):
                    violation(ctx, op, 'incremental-order', '%s/dedup=%s' % (
                        reg, dedup), 'counts not non-increasing: %r' % (items,))
                if sum(vals) != want_total:
                    unm = [s for s in kept if not any(matches(c, s)
                                                      for c in crs)]
                    tag = ('all-matched' if not unm else 'unmatched-' + '+'.join(
                        sorted({char_tag(s) for s in unm})))
                    violation(ctx, op, 'incremental-sum', '%s/dedup=%s/%s' % (
                        reg, dedup, tag),
                        'incremental counts %r sum to %d, examples supplied %d '
                        '(kept=%r)' % (items, sum(vals), want_total,
                                       list(kept.items())[:10]))
                else:
                    # each example credited to exactly one expression, in order
                    seen = set()
                    ok = True
                    for k, v in items:
                        try:
                            c = re.compile(k, RE_FLAGS)
                        except re.error:
                            ok = False
                            break
                        new = [s for s in kept if s not in seen
                               and c.match(s)]
                        if sum(w(s) for s in new) != v:
                            violation(ctx, op, 'incremental-credit',
                                      '%s/dedup=%s' % (reg, dedup),
                                      '%r credited %d, newly matches %d: %r'
                                      % (k, v, sum(w(s) for s in new), items))
                            break
                        seen.update(new)
            # n_examples
            ne = res['n_examples']
            if isinstance(ne, int):
                if has_null:
                    ctx.stats['abstain']['n_examples_with_nulls'] += 1
                elif ne != want_total:
                    violation(ctx, op, 'n-examples', '%s/dedup=%s' % (reg, dedup),
                              'n_examples(dedup=%s)=%d, supplied %d'
                              % (dedup, ne, want_total))

    check_round(rex, crs, reg, ev)
    if op.get('reextract') and outcome == 'ok':
        # the same extractor is asked to extract again with an option
        # changed, and then for its figures again
        try:
            x.variableLengthFrags = not getattr(x, 'variableLengthFrags',
                                                False)
            ctx.simr.begin(op.get('rs'))
            x.extract()
            rex2 = list(x.results.rex) if x.results else None
        except WatchdogTimeout:
            raise
        except Exception as e:
            rex2 = None
            ctx.stats['abstain']['reextract_raised'] += 1
        if rex2:
            crs2 = compile_all(rex2)
            if not any(isinstance(c, Exception) for c in crs2):
                ctx.stats['probes']['re_extraction_on_same_object'] += 1
                ev2 = {}
                check_round(rex2, crs2, reg + '+reextract', ev2)
                ev['reextract'] = {'rex': rex2, 'ev': ev2}
    if op.get('prune_dot_star') and x.results and len(x.results.rex) >= 2 \
            and not any('\n' in s for s in kept):
        # the caller drops the last (rarest) expression and lets the
        # catch-all stand in for it - ResultsSummary.remove(...,
        # add_dot_star=True) - and then asks for the figures of what is left
        try:
            x.results.remove([len(x.results.rex) - 1], add_dot_star=True)
            rex3 = list(x.results.rex)
        except WatchdogTimeout:
            raise
        except Exception:
            rex3 = None
            ctx.stats['abstain']['prune_raised'] += 1
        if rex3:
            crs3 = compile_all(rex3)
            if not any(isinstance(c, Exception) for c in crs3):
                ctx.stats['probes']['results_pruned_with_catch_all'] += 1
                ev3 = {}
                check_round(rex3, crs3, reg + '+pruned', ev3)
                ev['pruned'] = {'rex': rex3, 'ev': ev3}
    ctx.events.append(ev)


def terminate(p):
    return '%s%s%s' % ('' if p.startswith('^') else '^', p,
                       '' if p.endswith('$') else '$')


# --------------------------------------------------------------------------
# typed shrinkers
# --------------------------------------------------------------------------

def shrink(plan):
    ops = plan['ops']
    for idx, op in enumerate(ops):
        if op['op'] != 'extract':
            continue
        grouped = 'group' in op
        ex = op['examples']
        # drop examples (halves, then singles) -- in every member of a group
        # consistently would change the multiset; for grouped ops only
        # options/size are shrunk.
        if not grouped:
            n = len(ex)
            cuts = []
            if n > 3:
                cuts += [(0, n // 2), (n // 2, n)]
            cuts += [(i, i + 1) for i in range(n)]
            for a, b in cuts:
                if n - (b - a) < 1:
                    continue
                cand = copy.deepcopy(plan)
                o = cand['ops'][idx]
                del o['examples'][a:b]
                if 'freqs' in o:
                    del o['freqs'][a:b]
                yield cand
            for i, s in enumerate(ex):
                if s and len(s) > 1:
                    for t in (s[:len(s) // 2], s[len(s) // 2:], s[1:],
                              s[:-1]):
                        if op['form'] == 'dict' and t in ex:
                            continue
                        cand = copy.deepcopy(plan)
                        cand['ops'][idx]['examples'][i] = t
                        yield cand
            if 'freqs' in op and any(f != 1 for f in op['freqs']):
                cand = copy.deepcopy(plan)
                cand['ops'][idx]['freqs'] = [1] * len(op['freqs'])
                yield cand
        if not grouped:
            for k in list(op.get('opts', {})):
                cand = copy.deepcopy(plan)
                del cand['ops'][idx]['opts'][k]
                yield cand
            if op.get('size'):
                for k in list(op['size']):
                    if k in ('do_all', 'do_all_exceptions'):
                        continue
                    cand = copy.deepcopy(plan)
                    del cand['ops'][idx]['size'][k]
                    yield cand
            if op.get('form') == 'dict':
                cand = copy.deepcopy(plan)
                o = cand['ops'][idx]
                o['examples'] = [s for s, n in zip(o['examples'], o['freqs'])
                                 for _ in range(n)]
                o['form'] = 'list'
                del o['freqs']
                yield cand
