"""
M-REF: reference tests over a durable reference store (C04, C10, C15).

System (real code): ReferenceTest / ReferenceTestCase, _set_flags_from_argv,
referencepytest.ref, FilesComparison, PandasComparison writers, on real files
in a per-run world.  Clients are dynamically created test classes sharing the
class-level regeneration table.  Faults: storage faults on stored files
between write and check; I/O errors at write sites of failing normal-mode
assertions; lost references.
"""

import collections
import copy
import io
import os
import re
import sys

from sim import fsaudit
from sim.world import World
from sim.watchdog import WatchdogTimeout
from gens import lines as gl
from models import textcmp
from models.regen import RegenModel

NAME = 'M-REF'
PROPS = ('C04', 'C10', 'C15')

TIERS = {
    'C04': {'quick': {'runs': 24000, 'wall_cap': 200},
            'thorough': {'runs': 400000, 'wall_cap': 1200}},
    'C10': {'quick': {'runs': 10000, 'wall_cap': 200},
            'thorough': {'runs': 150000, 'wall_cap': 1200}},
    'C15': {'quick': {'runs': 16000, 'wall_cap': 200},
            'thorough': {'runs': 250000, 'wall_cap': 1200}},
}
LEVELS = {p: 'exploration' for p in PROPS}
STATES_MEASURE = ('distinct (regeneration table, set of existing reference '
                  'files, last-op outcome) triples')
COMPONENTS = {
    'real': ['tdda.referencetest.referencetest.ReferenceTest',
             'tdda.referencetest.referencetestcase (ReferenceTestCase, '
             '_set_flags_from_argv)', 'tdda.referencetest.referencepytest.ref',
             'tdda.referencetest.checkfiles.FilesComparison',
             'tdda.referencetest.checkpandas.PandasComparison',
             'pandas/pyarrow parquet writer+reader', 'real files in a RAM '
             'directory tree'],
    'stub': ['pytest request object (FakeRequest with getoption)',
             'the import-time default failure directory is re-pointed into '
             'the world (W/systmp) so that writes to it can be audited',
             'storage and I/O faults are injected by the simulator'],
}
RULES = {
    'C04': 'each run = 1-3 cases (write reference -> optional storage fault '
           'on reference or actual file -> assertion through one of the three '
           'text entry points with a random option subset; file pairs may carry '
           'equal or skewed simulated modification times), verdict compared '
           'with the M-text model; non-trivial = a storage fault fired or an '
           'exclusion option was in force or the texts differ; distinct = '
           'distinct (entry point, option set, fault kind, mutation kinds, '
           'model verdict, outcome) shapes',
    'C10': 'each run = 4-14 ops by 2-4 test classes sharing the regeneration '
           'table: set_regeneration / argv parsing / pytest options / string, '
           'text-file(s), binary and DataFrame assertions, with I/O-error '
           'faults at write sites of failing normal-mode assertions and lost '
           'references; after a regenerating assertion the kind is switched '
           'off and the same assertion re-issued; non-trivial = >= 2 classes '
           'interleaved or a fault fired or a regeneration happened; distinct '
           '= distinct (op-kind/client sequence, fault kinds, verdicts) shapes',
    'C15': 'each run = 1-4 failing or passing text/binary assertions (string '
           'and file entry points, option subsets, configured or default '
           'temp dir, configured dir created before or only after the test '
           'objects, artefacts of earlier ops left in place) with a complete '
           'before/after audit of the world; non-trivial = assertion failed '
           'with exclusions in force, or stale artefacts were present, or the '
           'temp dir was the unconfigured default; distinct = distinct (entry '
           'point, options, outcome, artefact set) shapes',
}
ASSUMPTIONS = {
    'C04': ['lines end at \\n, \\r\\n and \\r only (form feed, vertical tab, '
            'NEL, U+2028 are line content); cases that differ only in the '
            'number of trailing empty lines abstain',
            'ignore-patterns come from a fixed family over disjoint token '
            'alphabets; empty/overlapping matches abstain',
            'an exception other than AssertionError when the model says FAIL '
            'is counted, not failed (C04 does not say how it fails)'],
    'C10': ['positive argv obligation only for documented placements; other '
            'placements abstain on must-regenerate (DESIGN 6)',
            'DataFrame regenerate-then-pass uses dtypes that survive '
            'to_parquet/read_parquet unchanged on this installation'],
    'C15': ['"holds exactly the actual content" is compared as line '
            'sequences', 'missing-reference failures abstain on the '
            '"both files exist" clause', 'position check of the '
            'post-processed pair only when both sides have equally many '
            'lines after removals'],
}

KINDS = [None, 'table', 'graph', 'csv', 'bin']


# --------------------------------------------------------------------------
# generation
# --------------------------------------------------------------------------

def kname(k):
    return '~' if k is None else k


def gen_clients(r, n):
    clients = []
    dirs = ['d0', 'd1', 'd2', 'd3', 'd4']
    for i in range(n):
        cid = 'T%d' % i
        if i == 0:
            base = r.pick(['ReferenceTest', 'ReferenceTestCase'])
        else:
            base = r.weighted([(3, 'ReferenceTest'), (2, 'ReferenceTestCase'),
                               (2, clients[r.randrange(i)]['id'])])
        class_locs = []
        if base in ('ReferenceTest', 'ReferenceTestCase') or r.chance(0.5):
            class_locs.append([None, r.pick(dirs)])
        for k in KINDS[1:]:
            if r.chance(0.3):
                class_locs.append([k, r.pick(dirs)])
        inst_locs = []
        if not any(k is None for k, _ in class_locs) and base in (
                'ReferenceTest', 'ReferenceTestCase'):
            inst_locs.append([None, r.pick(dirs)])
        for k in KINDS:
            if r.chance(0.12):
                inst_locs.append([k, r.pick(dirs)])
        clients.append({'id': cid, 'base': base, 'class_locs': class_locs,
                        'inst_locs': inst_locs})
    if n >= 2 and r.chance(0.25):
        # two distinct test classes that happen to have the same name
        # (made by a factory, or the class statement executed twice)
        for c in clients:
            c['cls_name'] = 'TestResults'
    return clients


def gen_text_case(r, name, identical_p=0.3):
    """Reference lines, actual lines (near miss or identical), options."""
    ref_lines = gl.gen_lines(r)
    if r.chance(identical_p):
        act_lines, muts = list(ref_lines), []
    else:
        act_lines, muts = gl.mutate_lines(r, ref_lines)
    opts = gl.gen_options(r, ref_lines, act_lines) if r.chance(0.7) else {}
    if 'space_and_change' in muts and r.chance(0.7):
        opts['rstrip'] = True
        opts['lstrip'] = True
    if 'space_digits_and_change' in muts and r.chance(0.7):
        opts['rstrip'] = True
        opts['lstrip'] = True
        opts['ignore_patterns'] = [r.pick([r'\d+', r'\d{4}', r'(\d+)'])]
        for k in ('remove_lines', 'preprocess'):
            opts.pop(k, None)
    if 'blank_tail' in muts and r.chance(0.7):
        opts[r.pick(['rstrip', 'lstrip'])] = True
    if 'swap_and_change' in muts and r.chance(0.7):
        opts['max_permutation_cases'] = r.randint(1, 3)
    ref_text = gl.join_text(r, ref_lines)
    act_text = gl.join_text(r, act_lines) if (muts or r.chance(0.3)) \
        else ref_text
    return {'ref_text': ref_text, 'act_text': act_text, 'opts': opts,
            'muts': muts}


def gen_storage_fault(r, target):
    kind = r.weighted([(4, 'flip_char'), (3, 'drop_line'), (2, 'dup_line'),
                       (3, 'truncate_at_byte'), (1, 'lose_file'),
                       (2, 'append_garbage'), (2, 'crlf'), (1, 'bom')])
    return {'op': 'storage_fault', 'target': target, 'kind': kind,
            'pos': r.random(), 'char': r.pick('xyz019 #Q')}


def gen_c04(r, tier):
    clients = gen_clients(r, r.weighted([(3, 1), (1, 2)]))
    ops = []
    for c in range(r.weighted([(5, 1), (3, 2), (1, 3)])):
        who = r.pick(clients)['id']
        name = 'r%d.txt' % c
        kind = r.pick(KINDS[:3])
        entry = r.weighted([(4, 'string'), (4, 'textfile'), (2, 'textfiles')])
        n_files = r.randint(1, 3) if entry == 'textfiles' else 1
        cases = [gen_text_case(r, name) for _ in range(n_files)]
        opts = cases[0]['opts']
        refs = ['r%d_%d.txt' % (c, j) for j in range(n_files)]
        for j, cs in enumerate(cases):
            ops.append({'op': 'write_ref', 'client': who, 'kind': kind,
                        'ref': refs[j], 'text': cs['ref_text']})
        if entry == 'string':
            a = {'op': 'assert_string', 'client': who, 'kind': kind,
                 'ref': refs[0], 'actual': cases[0]['act_text'], 'opts': opts,
                 'muts': cases[0]['muts']}
            fault_targets = [('ref', 0)]
        else:
            files = ['a%d_%d.txt' % (c, j) for j in range(n_files)]
            a = {'op': 'assert_textfile' if entry == 'textfile'
                 else 'assert_textfiles', 'client': who, 'kind': kind,
                 'refs': refs, 'ref': refs[0], 'actual_files': [
                     {'name': files[j], 'text': cases[j]['act_text']}
                     for j in range(n_files)], 'opts': opts,
                 'muts': [m for cs in cases for m in cs['muts']]}
            fault_targets = [('ref', j) for j in range(n_files)] + \
                            [('actual', j) for j in range(n_files)]
        if entry != 'string' and r.chance(0.35):
            a['stamp'] = r.weighted([(3, 'same'), (1, 'ref_newer'),
                                     (1, 'actual_newer')])
        if entry != 'string' and r.chance(0.15):
            a['actual_via_symlink'] = True
        if r.chance(0.15):
            # the failure artefacts cannot be written (temp dir gone, full
            # or read-only): whatever else happens, a difference must not
            # turn into a pass
            a['fault'] = {'kind': r.pick(['enospc', 'eacces', 'eio',
                                          'short_write']),
                          'site': r.randint(0, 2), 'short': r.randint(0, 12)}
        if r.chance(0.45):
            t = r.pick(fault_targets)
            a['storage_fault'] = dict(gen_storage_fault(r, None),
                                      target=list(t))
            del a['storage_fault']['op']
            if tier == 'thorough' and r.chance(0.4):
                a['storage_fault']['enumerate'] = True
        ops.append(a)
    if r.chance(0.1):
        # a comparison that dies of an I/O error while reporting a changed
        # line, then - on the same object - the mirror-image change checked
        # with a permutation allowance: what the first one had noted must
        # not count for the second
        who = r.pick(clients)['id']
        kind = r.pick(KINDS[:3])
        a, b = r.sample(gl.WORDS, 2)
        pre = gl.gen_line(r)
        t1, t2 = '%s\nrow %s\n' % (pre, a), '%s\nrow %s\n' % (pre, b)
        ops += [
            {'op': 'write_ref', 'client': who, 'kind': kind,
             'ref': 'm0.txt', 'text': t1},
            {'op': 'assert_string', 'client': who, 'kind': kind,
             'ref': 'm0.txt', 'actual': t2,
             'opts': {'max_permutation_cases': r.randint(1, 3)},
             'muts': ['word'],
             'fault': {'kind': r.pick(['eacces', 'enospc']), 'site': 0,
                       'short': 0}},
            {'op': 'write_ref', 'client': who, 'kind': kind,
             'ref': 'm1.txt', 'text': t2},
            {'op': 'assert_string', 'client': who, 'kind': kind,
             'ref': 'm1.txt', 'actual': t1,
             'opts': {'max_permutation_cases': r.randint(2, 3)},
             'muts': ['word']}]
    return {'config': {'clients': clients, 'tmp_dir_configured': True,
                       'share_option_lists': r.chance(0.35),
                       'default_encoding': r.weighted([(9, None),
                                                       (1, 'cp1252')])},
            'ops': ops}


def gen_argv(r):
    """argv spellings: mostly documented placements, some not."""
    kinds = [k for k in KINDS[1:] if r.chance(0.4)] or [r.pick(KINDS[1:])]
    form = r.weighted([(3, 'W'), (2, 'write-all'), (4, 'write'), (2, 'w'),
                       (1, 'wquiet'), (1, 'tagged'), (2, 'cluster'),
                       (2, 'undocumented')])
    prog = 'prog.py'
    pre = []
    if r.chance(0.3):
        pre = [r.pick(['-v', '-q', '-f', '-b'])]

    def kindargs():
        if r.chance(0.5):
            return [','.join(kinds)]
        return list(kinds)

    if form == 'W':
        return [prog] + pre + [r.pick(['-W', '--W'])]
    if form == 'write-all':
        return [prog] + pre + ['--write-all']
    if form == 'write':
        return [prog] + pre + ['--write'] + kindargs()
    if form == 'w':
        return [prog] + pre + [r.pick(['-w', '--w'])] + kindargs()
    if form == 'wquiet':
        return [prog] + pre + [r.pick(['--wquiet', '-wquiet'])] + (
            ['--write'] + kindargs() if r.chance(0.6) else [])
    if form == 'tagged':
        return [prog] + pre + [r.pick(['--tagged', '-1', '-0', '--istagged'])] \
            + (['--write'] + kindargs() if r.chance(0.5) else [])
    if form == 'cluster':
        return [prog] + pre + [r.pick(['-W1', '-1W', '-vW', '-W0'])]
    # undocumented placements
    u = r.pick(['class-first', 'double-first', 'flag-in-kinds'])
    if u == 'class-first':
        return [prog, 'TestX', '--write'] + kindargs()
    if u == 'double-first':
        return [prog, '--verbose', '--write'] + kindargs()
    return [prog, '--write'] + kindargs() + ['-v']


def gen_frame(r):
    n = r.randint(0, 5)
    cols = []
    for j in range(r.randint(1, 3)):
        t = r.pick(['int', 'float', 'bool', 'str', 'dt'])
        if t == 'int':
            vals = [r.randint(-1000, 1000) for _ in range(n)]
        elif t == 'float':
            vals = [r.pick([0.5, -1.25, 3.0, 1e10, None])
                    if r.chance(0.3) else round(r.uniform(-9, 9), 3)
                    for _ in range(n)]
        elif t == 'bool':
            vals = [r.chance(0.5) for _ in range(n)]
        elif t == 'str':
            vals = [r.pick(gl.WORDS + gl.UWORDS) for _ in range(n)]
        else:
            vals = ['20%02d-%02d-%02dT%02d:00:00' % (
                r.randint(0, 40), r.randint(1, 12), r.randint(1, 28),
                r.randint(0, 23)) for _ in range(n)]
        cols.append({'name': 'c%d' % j, 'type': t, 'values': vals})
    return cols


def gen_assert(r, clients, counter, regen_biased=False):
    c = r.pick(clients)['id']
    kind = r.pick(KINDS)
    what = r.weighted([(5, 'string'), (3, 'textfile'), (2, 'textfiles'),
                       (2, 'binary'), (2, 'df')])
    i = counter[0]
    counter[0] += 1
    if what in ('string', 'textfile', 'textfiles'):
        n_files = r.randint(1, 3) if what == 'textfiles' else 1
        cases = [gen_text_case(r, 'x', identical_p=0.5 if n_files == 1
                               else 0.3)
                 for _ in range(n_files)]
        opts = cases[0]['opts'] if r.chance(0.4) else {}
        refs = ['s%d_%d.txt' % (i, j) for j in range(n_files)]
        if what == 'string':
            op = {'op': 'assert_string', 'client': c, 'kind': kind,
                  'ref': refs[0], 'actual': cases[0]['act_text'],
                  'opts': opts}
        else:
            op = {'op': 'assert_' + what, 'client': c, 'kind': kind,
                  'refs': refs, 'ref': refs[0],
                  'actual_files': [{'name': 'f%d_%d.txt' % (i, j),
                                    'text': cases[j]['act_text']}
                                   for j in range(n_files)], 'opts': opts}
        op['ref0'] = [cs['ref_text'] for cs in cases]
    elif what == 'binary':
        n = r.weighted([(12, r.randint(0, 40)), (1, r.randint(4090, 4200)),
                        (1, r.randint(8000, 9000))])
        data = bytes(r.randrange(256) for _ in range(n))
        ref = bytearray(data)
        if r.chance(0.5) and ref:
            ref[r.randrange(len(ref))] ^= 0x10
        elif r.chance(0.3):
            ref = ref[:r.randrange(len(ref) + 1)]
        op = {'op': 'assert_binary', 'client': c, 'kind': kind,
              'ref': 'b%d.bin' % i,
              'actual_files': [{'name': 'g%d.bin' % i, 'hex': data.hex()}],
              'ref0': [bytes(ref).hex()]}
    else:
        frame = gen_frame(r)
        op = {'op': 'assert_df', 'client': c,
              'kind': r.pick([None, 'table', 'graph', 'csv']),
              'ref': 'p%d.parquet' % i, 'frame': frame,
              'ref0': [copy.deepcopy(frame) if r.chance(0.5)
                       else gen_frame(r)]}
        if r.chance(0.35):
            # the on-disk variant: actual is a parquet file
            op['op'] = 'assert_df_file'
            op['actual_parquet'] = 'act%d.parquet' % i
    # does a reference exist beforehand?
    op['ref_exists'] = r.chance(0.8)
    if 'actual_files' in op and r.chance(0.25):
        op['stamp'] = r.weighted([(3, 'same'), (1, 'ref_newer'),
                                  (1, 'actual_newer')])
    if 'actual_files' in op and r.chance(0.12):
        op['actual_is_symlink'] = r.pick(['abs', 'rel'])
    return op


def gen_c10(r, tier):
    clients = gen_clients(r, r.randint(2, 4))
    ops = []
    counter = [0]
    n = r.randint(4, 14)
    for _ in range(n):
        k = r.weighted([(2, 'set_regen'), (2, 'argv'), (0.6, 'pytest'),
                        (6, 'assert')])
        if k == 'set_regen':
            ops.append({'op': 'set_regen', 'client': r.pick(clients)['id'],
                        'kind': r.pick(KINDS),
                        'value': r.weighted([(3, True), (2, False)])})
        elif k == 'argv':
            ops.append({'op': 'argv', 'client': 'T0', 'argv': gen_argv(r)})
        elif k == 'pytest':
            wa = r.chance(0.3)
            ops.append({'op': 'pytest_ref', 'client': 'T0', 'write_all': wa,
                        'write': None if wa else
                        [','.join(r.sample(KINDS[1:], r.randint(1, 2)))],
                        'wquiet': r.chance(0.3)})
        else:
            op = gen_assert(r, clients, counter)
            op['recheck'] = True
            prev = [o for o in ops if o['op'] == op['op']
                    and len(o.get('refs', [1])) == len(op.get('refs', [1]))]
            if prev and r.chance(0.4):
                # the same reference is used again later in the history
                # (checked, then regenerated with other content, ...)
                src = r.pick(prev)
                if r.chance(0.3):
                    # the same reference *name* under another kind (whose
                    # own location may hold no such file yet)
                    for k in ('client', 'ref', 'refs'):
                        if k in src:
                            op[k] = src[k]
                    op['ref_exists'] = False
                else:
                    for k in ('client', 'kind', 'ref', 'refs'):
                        if k in src:
                            op[k] = src[k]
            if r.chance(0.25):
                # I/O error at a write site (only armed by the executor for
                # normal-mode assertions)
                op['fault'] = {'kind': r.pick(['enospc', 'eacces', 'eio',
                                               'short_write']),
                               'site': r.randint(0, 3),
                               'short': r.randint(0, 12)}
                if tier == 'thorough' and r.chance(0.5):
                    op['fault']['enumerate'] = True
                if r.chance(0.4):
                    # armed in regeneration mode too: the write of the new
                    # reference is interrupted; the user then tries again
                    op['fault']['in_regen'] = True
                    op['fault']['site'] = r.randint(0, 1)
                    ops.append(op)
                    op = copy.deepcopy(op)
                    del op['fault']
                    op['retry_after_failed_write'] = True
            elif r.chance(0.1):
                op['read_fault'] = {'kind': 'read_eio'}
            ops.append(op)
    if r.chance(0.35) and len(clients) >= 2:
        # motif: a kind is switched on through one class, used, switched off
        # through another class, and used again by the first
        x, y = r.sample([c['id'] for c in clients], 2)
        k = r.pick(KINDS)
        a1 = gen_assert(r, clients, counter)
        a1.update(client=x, kind=k if a1['op'] not in (
            'assert_df', 'assert_df_file') or k != 'bin' else None,
            recheck=True)
        a2 = copy.deepcopy(a1)
        if 'actual' in a2:
            a2['actual'] = a2['actual'] + 'changed\n'
        motif = [{'op': 'set_regen', 'client': x, 'kind': a1['kind'],
                  'value': True}, a1,
                 {'op': 'set_regen', 'client': y, 'kind': a1['kind'],
                  'value': False}, a2]
        pos = r.randrange(len(ops) + 1)
        ops[pos:pos] = motif
    return {'config': {'clients': clients,
                       'tmp_dir_configured': r.chance(0.7),
                       'default_encoding': r.weighted([(9, None),
                                                       (1, 'cp1252')])},
            'ops': ops}


def gen_c15(r, tier):
    clients = gen_clients(r, r.randint(1, 2))
    if len(clients) > 1 and r.chance(0.5):
        # each test class configures its own directory for failure files
        for k, c in enumerate(clients):
            if r.chance(0.8):
                c['tmp_dir'] = 'fail%s' % 'AB'[k]
    ops = []
    counter = [0]
    for _ in range(r.weighted([(3, 1), (3, 2), (2, 3), (1, 4)])):
        op = gen_assert(r, clients, counter)
        while op['op'] in ('assert_df', 'assert_df_file'):
            op = gen_assert(r, clients, counter)
        if 'opts' in op and r.chance(0.5):
            # make exclusions likely on failing pairs
            ref_lines = op['ref0'][0].splitlines()
            act_lines = (op['actual'] if 'actual' in op
                         else op['actual_files'][0]['text']).splitlines()
            op['opts'] = gl.gen_options(r, ref_lines, act_lines)
        op['ref_exists'] = r.chance(0.92)
        if 'actual_files' in op and r.chance(0.08):
            # the program under test did not produce its output file
            op['actual_missing'] = True
        elif r.chance(0.15):
            # I/O error while the failure artefacts are being written
            op['fault'] = {'kind': r.pick(['enospc', 'eacces', 'eio',
                                           'short_write']),
                           'site': r.randint(0, 3),
                           'short': r.randint(0, 12)}
        # reuse names so that artefacts of earlier ops are overwritten
        if r.chance(0.3) and ops:
            prev = r.pick(ops)
            if prev['op'] == op['op'] and 'refs' not in op:
                op['ref'] = prev['ref']
                op['kind'] = prev['kind']
                op['client'] = prev['client']
        ops.append(op)
    return {'config': {'clients': clients,
                       'tmp_dir_configured': r.chance(0.75),
                       'tmp_dir_late': r.chance(0.25),
                       'share_option_lists': r.chance(0.3),
                       'env_fail_dir': r.chance(0.2),
                       'default_encoding': r.weighted([(9, None),
                                                       (1, 'cp1252')])},
            'ops': ops}


def gen_plan(prop, r, tier, run):
    plan = {'C04': gen_c04, 'C10': gen_c10, 'C15': gen_c15}[prop](r, tier)
    if prop == 'C15':
        # the same assertion fails twice in a row, the second result
        # differing from the first only in how its lines are separated
        # (form feed for a newline) or by a final empty line: the artefacts
        # of the first failure are lying in the temp directory
        out = []
        for op in plan['ops']:
            out.append(op)
            if op['op'] == 'assert_string' and r.chance(0.12) \
                    and '\n' in op['actual'][:-1]:
                again = copy.deepcopy(op)
                a = op['actual']
                k = a.index('\n')
                again['actual'] = r.pick([a[:k] + '\x0c' + a[k + 1:],
                                          a + '\n', a[:k] + '\x0b' + a[k:]])
                again.pop('storage_fault', None)
                again.pop('fault', None)
                out.append(again)
        plan['ops'] = out
    for i, op in enumerate(plan['ops']):
        op['i'] = i
        if prop in ('C04', 'C15') and op['op'] in (
                'assert_textfile', 'assert_textfiles') and r.chance(0.15):
            # the caller names an encoding for this one comparison (used
            # only where everything compared is ASCII, so that the outcome
            # is the same under any encoding)
            op['encoding_arg'] = 'iso-8859-1'
        if prop == 'C10' and op['op'] in (
                'assert_string', 'assert_textfile', 'assert_textfiles') \
                and 'ref0' in op and r.chance(0.08):
            op['ref0_encoding'] = r.pick(['utf-16', 'utf-8-sig'])
        if prop in ('C04', 'C15') and op['op'] in (
                'assert_textfile', 'assert_binary', 'assert_df_file') \
                and r.chance(0.08):
            # the actual file named relative to the current directory, in a
            # process whose $PWD is stale (os.chdir does not update it)
            op['actual_relative'] = True
    return plan


# --------------------------------------------------------------------------
# execution
# --------------------------------------------------------------------------

class FakeConfig(object):
    def __init__(self, d):
        self.d = d

    def getoption(self, name, default=None):
        return self.d.get(name, default)


class FakeRequest(object):
    def __init__(self, d):
        self.config = FakeConfig(d)


_RT_OK = {}


def roundtrippable(W):
    """dtype kinds that survive to_parquet/read_parquet unchanged here."""
    if _RT_OK:
        return _RT_OK
    import pandas as pd
    p = W.path('data', '_rt.parquet')
    for t in ('int', 'float', 'bool', 'str', 'dt'):
        df = build_frame([{'name': 'c', 'type': t,
                           'values': sample_vals(t)}])
        try:
            df.to_parquet(p)
            back = pd.read_parquet(p)
            _RT_OK[t] = (str(back['c'].dtype) == str(df['c'].dtype)
                         and back.equals(df))
        except Exception:
            _RT_OK[t] = False
    if os.path.exists(p):
        os.remove(p)
    return _RT_OK


def sample_vals(t):
    return {'int': [1, 2], 'float': [0.5, None], 'bool': [True, False],
            'str': ['a', 'é'], 'dt': ['2020-01-02T03:00:00',
                                      '2021-01-02T03:00:00']}[t]


def build_frame(cols):
    import pandas as pd
    d = collections.OrderedDict()
    for c in cols:
        t = c['type']
        if t == 'int':
            d[c['name']] = pd.Series(c['values'], dtype='int64')
        elif t == 'float':
            d[c['name']] = pd.Series(c['values'], dtype='float64')
        elif t == 'bool':
            d[c['name']] = pd.Series(c['values'], dtype='bool')
        elif t == 'str':
            d[c['name']] = pd.Series(c['values'], dtype=object)
        else:
            d[c['name']] = pd.to_datetime(pd.Series(
                c['values'], dtype=object)).astype('datetime64[ns]')
    return pd.DataFrame(d)


class Ctx(object):
    pass


def execute(plan):
    from tdda.referencetest import referencetest as rt
    from tdda.referencetest import referencetestcase as rtc
    from tdda.referencetest import referencepytest as rpt
    from tdda.referencetest import checkpandas as cp

    prop = plan['property']
    ctx = Ctx()
    ctx.prop = prop
    ctx.events = []
    ctx.violations = []
    ctx.stats = {'faults': collections.Counter(),
                 'probes': collections.Counter(),
                 'abstain': collections.Counter(),
                 'checks': collections.Counter()}
    ctx.states = set()
    ctx.shape = []
    ctx.nontrivial = False
    ctx.model = RegenModel()
    ctx.rt, ctx.rtc, ctx.rpt = rt, rtc, rpt

    RT = rt.ReferenceTest
    saved = {'regenerate': dict(RT.regenerate),
             'ddl': dict(RT.default_data_locations),
             'tmp_dir': RT.__dict__.get('tmp_dir'),
             'verbose': RT.__dict__.get('verbose'),
             'print_fn': RT.__dict__.get('print_fn'),
             'tc_verbose': rtc.ReferenceTestCase.__dict__.get('verbose'),
             'stdout': sys.stdout, 'stderr': sys.stderr}
    printed = []

    def collector(*a, **kw):
        printed.append(' '.join(str(x) for x in a))

    ctx.plan_config = plan['config']
    with World() as W:
        ctx.W = W
        RT.regenerate.clear()
        RT.default_data_locations.clear()
        RT.verbose = True
        RT.print_fn = staticmethod(collector)
        if plan['config'].get('tmp_dir_configured', True):
            RT.tmp_dir = W.path('systmp')       # the (stubbed) default
            RT.set_defaults(tmp_dir=W.path('fail'))
            ctx.tmp_dir = W.path('fail')
        else:
            RT.tmp_dir = W.path('systmp')
            ctx.tmp_dir = W.path('systmp')
        sys.stdout = io.StringIO()
        sys.stderr = io.StringIO()
        seam = fsaudit.FsSeam([W.root])
        ctx.seam = seam
        try:
            with seam:
                late = (plan['config'].get('tmp_dir_late')
                        and plan['config'].get('tmp_dir_configured', True))
                if plan['config'].get('env_fail_dir'):
                    # TDDA_FAIL_DIR appears in the environment after tdda
                    # was imported (exported by a wrapper script, set by a
                    # fixture): the documented effect is on import only
                    os.makedirs(W.path('envfail'), exist_ok=True)
                    os.environ['TDDA_FAIL_DIR'] = W.path('envfail')
                    ctx.stats['faults']['TDDA_FAIL_DIR_set_after_import'] += 1
                if late:
                    # the configured directory is only created by the
                    # suite's set-up, after the test objects are constructed
                    os.rmdir(W.path('fail'))
                build_clients(ctx, plan['config']['clients'])
                if late:
                    os.mkdir(W.path('fail'))
                    ctx.stats['faults'][
                        'tmp_dir_created_after_construction'] += 1
                clients_seen = []
                for op in plan['ops']:
                    if op.get('client') and op['client'] not in clients_seen:
                        clients_seen.append(op['client'])
                    run_op(ctx, op)
                if len(clients_seen) > 1:
                    ctx.nontrivial = True
        finally:
            sys.stdout = saved['stdout']
            sys.stderr = saved['stderr']
            RT.regenerate.clear()
            RT.regenerate.update(saved['regenerate'])
            RT.default_data_locations.clear()
            RT.default_data_locations.update(saved['ddl'])
            for k in ('tmp_dir', 'verbose', 'print_fn'):
                if saved[k] is not None:
                    setattr(RT, k, saved[k])
            if saved['tc_verbose'] is None:
                if 'verbose' in rtc.ReferenceTestCase.__dict__:
                    del rtc.ReferenceTestCase.verbose
            else:
                rtc.ReferenceTestCase.verbose = saved['tc_verbose']
    inter = ''.join('%s%s' % (op.get('client', '-'), op['op'][:3])
                    for op in plan['ops'])
    return {'events': ctx.events, 'violations': ctx.violations,
            'stats': {k: dict(v) for k, v in ctx.stats.items()},
            'shape': '|'.join(ctx.shape), 'nontrivial': ctx.nontrivial,
            'states': sorted(ctx.states), 'interleaving': inter,
            'sim_time': 0}


def build_clients(ctx, clients):
    rt, rtc = ctx.rt, ctx.rtc
    W = ctx.W
    ctx.classes = {}
    ctx.insts = {}
    ctx.locs = {}
    ctx.client_tmp = {}

    def assert_fn(cond, msg):
        if not cond:
            raise AssertionError(msg)

    for c in clients:
        base = c['base']
        if base == 'ReferenceTest':
            cls = type(c.get('cls_name', c['id']), (rt.ReferenceTest,), {})
        elif base == 'ReferenceTestCase':
            cls = type(c.get('cls_name', c['id']), (rtc.ReferenceTestCase,),
                       {'runTest': lambda self: None})
        else:
            cls = type(c.get('cls_name', c['id']), (ctx.classes[base],), {})
        ctx.classes[c['id']] = cls
        if c.get('tmp_dir'):
            tp = W.path(c['tmp_dir'])
            os.makedirs(tp, exist_ok=True)
            cls.set_defaults(tmp_dir=tp)
            ctx.client_tmp[c['id']] = tp
            ctx.stats['probes']['class_with_its_own_tmp_dir'] += 1
        elif base in ctx.client_tmp:
            ctx.client_tmp[c['id']] = ctx.client_tmp[base]
    # every class is configured before any test object is constructed
    # (unittest builds all TestCase objects before running any set-up)
    for c in clients:
        base = c['base']
        cls = ctx.classes[c['id']]
        locs = dict(ctx.locs[base]['class']) if base in ctx.locs else {}
        for k, d in c['class_locs']:
            p = W.path('ref', d)
            os.makedirs(p, exist_ok=True)
            cls.set_default_data_location(p, kind=k)
            locs[k] = p
        if issubclass(cls, rtc.ReferenceTestCase):
            inst = cls()
        else:
            inst = cls(assert_fn)
        ilocs = dict(locs)
        for k, d in c['inst_locs']:
            p = W.path('ref', d)
            os.makedirs(p, exist_ok=True)
            inst.set_data_location(p, kind=k)
            ilocs[k] = p
        if None not in ilocs:
            p = W.path('ref', 'dflt')
            os.makedirs(p, exist_ok=True)
            inst.set_data_location(p, kind=None)
            ilocs[None] = p
        ctx.insts[c['id']] = inst
        ctx.locs[c['id']] = {'class': locs, 'inst': ilocs}


def ref_path(ctx, client, kind, name):
    locs = ctx.locs[client]['inst']
    d = locs[kind] if kind in locs else locs[None]
    return os.path.join(d, name)


def violation(ctx, op, clause, tag, detail):
    sig = '%s/%s/%s' % (ctx.prop, clause, tag)
    ctx.violations.append({'clause': clause, 'signature': sig,
                           'detail': ctx.W.scrub(detail), 'at_op': op['i']})


def raw_write(path, text=None, data=None):
    os.makedirs(os.path.dirname(path), exist_ok=True)
    with io.open(path, 'wb') as f:
        f.write(data if data is not None else text.encode('utf-8'))


def read_text_model(path):
    """File content as a text model reads it: UTF-8, universal newlines.
    Returns None if missing, raises UnicodeDecodeError if undecodable."""
    if not os.path.exists(path):
        return None
    with io.open(path, 'rb') as f:
        b = f.read()
    t = b.decode('utf-8')
    return t.replace('\r\n', '\n').replace('\r', '\n')


def apply_storage_fault(ctx, sf, path):
    """Storage fault on a stored file (between write and check)."""
    kind = sf['kind']
    if not os.path.exists(path):
        return False
    with io.open(path, 'rb') as f:
        b = f.read()
    if kind == 'lose_file':
        os.remove(path)
        ctx.stats['faults']['lose_file'] += 1
        return True
    try:
        t = b.decode('utf-8')
    except UnicodeDecodeError:
        return False
    if kind == 'flip_char':
        if not t:
            return False
        p = int(sf['pos'] * len(t)) % len(t)
        c = sf['char'] if t[p] != sf['char'] else 'Z'
        t2 = t[:p] + c + t[p + 1:]
        nb = t2.encode('utf-8')
    elif kind in ('drop_line', 'dup_line'):
        ls = t.splitlines(True)
        if not ls:
            return False
        p = int(sf['pos'] * len(ls)) % len(ls)
        if kind == 'drop_line':
            del ls[p]
        else:
            ls.insert(p, ls[p] if ls[p].endswith(('\n', '\r'))
                      else ls[p] + '\n')
        nb = ''.join(ls).encode('utf-8')
    elif kind == 'truncate_at_byte':
        if not b:
            return False
        nb = b[:int(sf['pos'] * len(b))]
    elif kind == 'append_garbage':
        nb = b + ('%s%s\n' % (sf['char'], sf['char'])).encode('utf-8')
    elif kind == 'crlf':
        nb = t.replace('\r\n', '\n').replace('\n', '\r\n').encode('utf-8')
    elif kind == 'bom':
        nb = b'\xef\xbb\xbf' + b
    else:
        return False
    if nb == b:
        return False
    with io.open(path, 'wb') as f:
        f.write(nb)
    ctx.stats['faults'][kind] += 1
    return True


def run_op(ctx, op):
    kind = op['op']
    if kind == 'set_regen':
        cls = ctx.classes[op['client']]
        cls.set_regeneration(op['kind'], op['value'])
        ctx.model.set(op['kind'], op['value'])
        ctx.events.append({'i': op['i'], 'op': kind,
                           'table': ctx.model.snapshot()})
        ctx.shape.append('%sR' % op['client'])
        return
    if kind == 'argv':
        argv = list(op['argv'])
        m = ctx.model.apply_argv(argv)
        try:
            out = ctx.rtc._set_flags_from_argv(argv)
            outcome = 'ok'
        except WatchdogTimeout:
            raise
        except Exception as e:
            outcome = 'exc:%s' % type(e).__name__
        if not m['documented']:
            ctx.stats['abstain']['argv_undocumented_placement'] += 1
        ctx.stats['probes']['argv_parsed'] += 1
        ctx.events.append({'i': op['i'], 'op': kind, 'argv': op['argv'],
                           'outcome': outcome, 'model': m,
                           'real_table': sorted(
                               (kname(k), bool(v)) for k, v in
                               ctx.rt.ReferenceTest.regenerate.items())})
        ctx.shape.append('A%s' % ('d' if m['documented'] else 'u'))
        return
    if kind == 'pytest_ref':
        d = {'--wquiet': op['wquiet'], '--write-all': op['write_all'],
             '--write': op['write']}
        ctx.rpt.ref(FakeRequest(d))
        ctx.model.apply_pytest(op['write_all'], op['write'], op['wquiet'])
        ctx.events.append({'i': op['i'], 'op': kind})
        ctx.shape.append('Y')
        return
    if kind == 'write_ref':
        raw_write(ref_path(ctx, op['client'], op['kind'], op['ref']),
                  text=op['text'])
        ctx.events.append({'i': op['i'], 'op': kind})
        return
    if kind.startswith('assert_'):
        return run_assert(ctx, op)
    raise ValueError('unknown op %r' % kind)


def prepare_assert(ctx, op):
    """Writes the pre-existing reference(s) and actual files of this op
    (the 'earlier run' and the program under test).  Returns paths."""
    W = ctx.W
    refs = op.get('refs') or [op['ref']]
    rpaths = [ref_path(ctx, op['client'], op['kind'], n) for n in refs]
    if 'ref0' in op and op.get('ref_exists', True):
        for p, content in zip(rpaths, op['ref0']):
            if os.path.lexists(p):
                continue        # left by an earlier op: keep history
            if op['op'] == 'assert_binary':
                raw_write(p, data=bytes.fromhex(content))
            elif op['op'] in ('assert_df', 'assert_df_file'):
                os.makedirs(os.path.dirname(p), exist_ok=True)
                build_frame(content).to_parquet(p)
            elif op.get('ref0_encoding') and content:
                # the existing reference was saved by some other tool, as
                # UTF-16 or as UTF-8 with a byte-order mark
                raw_write(p, data=content.encode(op['ref0_encoding']))
                ctx.stats['faults']['existing_reference_in_%s'
                                    % op['ref0_encoding'].replace('-', '_')] \
                    += 1
            else:
                raw_write(p, text=content)
    apaths = []
    if op['op'] == 'assert_df_file':
        p = W.path('data', op['actual_parquet'])
        os.makedirs(os.path.dirname(p), exist_ok=True)
        build_frame(op['frame']).to_parquet(p)
        apaths.append(p)
    for k, af in enumerate(op.get('actual_files', [])):
        p = W.path('data', af['name'])
        if op.get('actual_missing') and k == 0:
            if os.path.exists(p):
                os.remove(p)
            apaths.append(p)
            ctx.stats['faults']['actual_file_missing'] += 1
            continue
        if op.get('actual_is_symlink'):
            # the result file is itself a symlink (out/latest.bin ->
            # run1/image.bin), relative or absolute
            real = W.path('data', 'run1', af['name'])
            if os.path.lexists(p):
                os.remove(p)
            target = real if op['actual_is_symlink'] == 'abs' else \
                os.path.join('run1', af['name'])
            wp = real
        else:
            wp = p
        if 'hex' in af:
            raw_write(wp, data=bytes.fromhex(af['hex']))
        else:
            raw_write(wp, text=af['text'])
        if op.get('actual_is_symlink'):
            os.symlink(target, p)
            ctx.stats['probes']['actual_file_is_a_symlink'] += 1
        if op.get('actual_via_symlink') and 'text' in af:
            # the actual file is named through a symlinked directory and
            # "..": <cwd>/lnk -> <data>/inner, so <cwd>/lnk/../NAME is
            # <data>/NAME.  A file of the same name next to the link (what
            # the path collapses to textually) holds the reference content.
            inner = W.path('data', 'inner')
            os.makedirs(inner, exist_ok=True)
            lnk = W.path('cwd', 'lnk')
            if not os.path.islink(lnk):
                os.symlink(inner, lnk)
            k = len(apaths)
            decoy = W.path('cwd', af['name'])
            try:
                raw_write(decoy, text=read_text_model(rpaths[k])
                          if k < len(rpaths) and os.path.exists(rpaths[k])
                          else 'decoy\n')
            except UnicodeDecodeError:
                raw_write(decoy, text='decoy\n')
            p = os.path.join(lnk, '..', af['name'])
            ctx.stats['probes']['actual_named_through_symlink_and_dotdot'] \
                += 1
        apaths.append(p)
    return rpaths, apaths


def preprocess_fn(opts):
    name = opts.get('preprocess')
    return textcmp.PREPROCESSORS[name] if name else None


def call_assert(ctx, op, rpaths, apaths):
    inst = ctx.insts[op['client']]
    o = dict(op.get('opts') or {})
    if 'preprocess' in o:
        o['preprocess'] = preprocess_fn(o)
    if ctx.plan_config.get('share_option_lists'):
        # the caller keeps one list object per option and edits it in place
        # between assertions
        shared = ctx.__dict__.setdefault('shared_lists', {})
        for k in ('ignore_patterns', 'ignore_substrings', 'remove_lines'):
            if k in o:
                lst = shared.setdefault(k, [])
                if lst and lst != o[k]:
                    ctx.stats['probes']['option_list_edited_in_place'] += 1
                lst[:] = o[k]
                o[k] = lst
    k = op['kind']
    refs = op.get('refs') or [op['ref']]
    denc = None
    if ctx.plan_config.get('default_encoding'):
        # a process whose preferred text encoding is not UTF-8
        from sim.defaultenc import DefaultEncoding
        denc = DefaultEncoding(ctx.plan_config['default_encoding'],
                               ctx.stats['faults'])
    if op.get('encoding_arg'):
        blobs = []
        for pth in list(apaths or []) + list(rpaths or []):
            try:
                with io.open(pth, 'rb') as fh:
                    blobs.append(fh.read())
            except (IOError, OSError):
                blobs.append(b'\xff')
        if op['op'] == 'assert_string':
            blobs.append(op['actual'].encode('utf-8'))
        if all(all(c < 128 for c in b) for b in blobs):
            if op['op'] == 'assert_textfiles':
                o['encodings'] = [op['encoding_arg']] * len(refs)
            else:
                o['encoding'] = op['encoding_arg']
            ctx.stats['probes']['encoding_named_for_one_comparison'] += 1
    saved_cwd = saved_pwd = None
    if op.get('actual_relative') and apaths and os.path.isabs(apaths[0]) \
            and os.path.isdir(os.path.dirname(apaths[0])):
        saved_cwd = os.getcwd()
        saved_pwd = os.environ.get('PWD')
        os.environ['PWD'] = ctx.W.path('home')
        os.chdir(os.path.dirname(apaths[0]))
        apaths = [os.path.basename(apaths[0])] + list(apaths[1:])
        ctx.stats['probes']['actual_named_relative_with_stale_PWD'] += 1
    try:
        if denc:
            denc.__enter__()
        if op['op'] == 'assert_string':
            inst.assertStringCorrect(op['actual'], refs[0], kind=k, **o)
        elif op['op'] == 'assert_textfile':
            inst.assertTextFileCorrect(apaths[0], refs[0], kind=k, **o)
        elif op['op'] == 'assert_textfiles':
            inst.assertTextFilesCorrect(apaths, refs, kind=k, **o)
        elif op['op'] == 'assert_binary':
            inst.assertBinaryFileCorrect(apaths[0], refs[0], kind=k)
        elif op['op'] == 'assert_df':
            inst.assertDataFrameCorrect(build_frame(op['frame']), refs[0],
                                        kind=k)
        elif op['op'] == 'assert_df_file':
            inst.assertOnDiskDataFrameCorrect(apaths[0], refs[0], kind=k)
        return 'pass', None
    except WatchdogTimeout:
        raise
    except AssertionError as e:
        return 'fail', e
    except BaseException as e:
        if isinstance(e, (KeyboardInterrupt, SystemExit)):
            raise
        return 'error', e
    finally:
        if denc:
            denc.__exit__(None, None, None)
        if saved_cwd is not None:
            os.chdir(saved_cwd)
            if saved_pwd is None:
                os.environ.pop('PWD', None)
            else:
                os.environ['PWD'] = saved_pwd


def exc_tag(e):
    import traceback
    fn = '?'
    for fr in traceback.extract_tb(e.__traceback__):
        if '/tdda/' in fr.filename:
            fn = fr.name
    return '%s@%s' % (type(e).__name__, fn)


ERRNO = {'enospc': 28, 'eacces': 13, 'eio': 5, 'short_write': 28,
         'read_eio': 5}


def run_assert(ctx, op):
    W = ctx.W
    prop = ctx.prop
    rpaths, apaths = prepare_assert(ctx, op)
    # storage fault between write and check
    sf = op.get('storage_fault')
    sf_fired = False
    pristine = None
    if sf:
        which, j = sf['target']
        target = (rpaths if which == 'ref' else apaths)
        if j < len(target):
            if sf.get('enumerate') and os.path.exists(target[j]):
                with io.open(target[j], 'rb') as fh:
                    pristine = (target[j], fh.read())
            sf_fired = apply_storage_fault(ctx, sf, target[j])
    age_world(ctx)
    apply_stamp(ctx, op, rpaths, apaths)
    mode = ctx.model.lookup(op['kind'])
    roots = [W.path(d) for d in ('ref', 'fail', 'systmp', 'cwd', 'canary',
                                 'home', 'tmp', 'data', 'failA', 'failB',
                                 'envfail')]
    before = fsaudit.snapshot(roots)
    fault = None
    read_fault = None
    if op.get('fault') and (mode is False or (
            mode is True and op['fault'].get('in_regen'))):
        f = op['fault']
        fault = {'kind': f['kind'], 'site': f['site'],
                 'errno': ERRNO[f['kind']],
                 'short': f['short'] if f['kind'] == 'short_write' else None}
    if mode is False and op.get('read_fault'):
        read_fault = {'kind': 'read_eio', 'errno': 5,
                      'path_suffix': os.path.basename(rpaths[0])}
    ctx.seam.begin_op(fault, read_fault)
    outcome, exc = call_assert(ctx, op, rpaths, apaths)
    log = list(ctx.seam.log)
    fired = list(ctx.seam.fired)
    ctx.seam.begin_op(None, None)
    after = fsaudit.snapshot(roots)
    delta = fsaudit.diff(before, after)
    for f in fired:
        ctx.stats['faults'][f[0]] += 1
    if fired or sf_fired:
        ctx.nontrivial = True
    ev = {'i': op['i'], 'op': op['op'], 'client': op['client'],
          'kind': kname(op['kind']), 'mode': str(mode), 'outcome': outcome,
          'exc': exc_tag(exc) if outcome == 'error' else None,
          'delta': [(W.rel(p), c) for p, c in delta],
          'log': [(c, W.rel(p)) for c, p in log],
          'fired': [(a, b, W.rel(c)) for a, b, c in fired]}
    ctx.events.append(ev)
    existing = sorted(W.rel(p) for p, e in after.items()
                      if e[0] == 'file' and p.startswith(W.path('ref')))
    ctx.states.add('%s|%s|%s' % (ctx.model.snapshot(), existing, outcome))
    ctx.shape.append('%s%s:%s:%s:%s%s' % (
        op['client'], op['op'][7:10], str(mode)[0], outcome[0],
        ''.join(sorted(f[0][:2] for f in fired)),
        ('S' + sf['kind'][:3]) if sf_fired else ''))

    if prop == 'C10':
        check_c10(ctx, op, mode, outcome, exc, delta, log, fired, rpaths,
                  apaths, before, after)
        if mode is False and (op.get('fault') or {}).get('enumerate'):
            enumerate_fault_sites(ctx, op, rpaths, apaths, len(log))
    elif prop == 'C04':
        check_c04(ctx, op, outcome, exc, rpaths, apaths, sf_fired)
        if pristine is not None and sf['kind'] in ('flip_char', 'drop_line',
                                                  'dup_line'):
            # thorough tier: the same single-line fault at every line
            path, data = pristine
            nlines = max(1, len(data.splitlines()))
            for k in range(min(nlines, 12)):
                with io.open(path, 'wb') as fh:
                    fh.write(data)
                sf2 = dict(sf, pos=(k + 0.5) / nlines)
                if sf['kind'] == 'flip_char':
                    # a position inside line k
                    ls = data.decode('utf-8', 'replace').splitlines(True)
                    off = sum(len(x) for x in ls[:k])
                    tot = max(1, len(data.decode('utf-8', 'replace')))
                    sf2['pos'] = (off + 0.3 * max(1, len(ls[k]) - 1)) / tot \
                        if k < len(ls) else 0.0
                fired = apply_storage_fault(ctx, sf2, path)
                apply_stamp(ctx, op, rpaths, apaths)
                ctx.seam.begin_op(None, None)
                o2, e2 = call_assert(ctx, op, rpaths, apaths)
                ctx.stats['checks']['fault_positions_enumerated'] += 1
                check_c04(ctx, op, o2, e2, rpaths, apaths, fired)
    elif prop == 'C15':
        check_c15(ctx, op, mode, outcome, exc, delta, log, rpaths, apaths,
                  before, after, fired)


STAMP0 = 1600000000


def age_world(ctx):
    """The simulator owns the file clock: everything that exists when an
    assertion starts is old (a fixed time in the past), so that whether a
    rewrite with identical content shows as 'touched' never depends on how
    many real milliseconds separate two writes."""
    for dirpath, dirnames, filenames in os.walk(ctx.W.root):
        for f in filenames:
            try:
                os.utime(os.path.join(dirpath, f), (STAMP0 - 1000,
                                                    STAMP0 - 1000))
            except OSError:
                pass


def apply_stamp(ctx, op, rpaths, apaths):
    """Simulated file clock: the modification times the stored files carry
    when the check runs (coarse-granularity filesystems, cp -p, restored
    backups: equal stamps on different content; or either side newer)."""
    st = op.get('stamp')
    if not st or not apaths:
        return
    tr, ta = {'same': (STAMP0, STAMP0), 'ref_newer': (STAMP0 + 7, STAMP0),
              'actual_newer': (STAMP0, STAMP0 + 7)}[st]
    n = 0
    for p in rpaths:
        if os.path.isfile(p):
            os.utime(p, (tr, tr))
            n += 1
    for p in apaths:
        if os.path.isfile(p):
            os.utime(p, (ta, ta))
            n += 1
    if n:
        ctx.stats['faults']['mtime_' + st] += 1
        if st == 'same' and len(rpaths) == len(apaths) and any(
                os.path.isfile(a) and os.path.isfile(b)
                and os.path.getsize(a) == os.path.getsize(b)
                for a, b in zip(rpaths, apaths)):
            ctx.stats['probes']['same_size_same_mtime_pair'] += 1


def enumerate_fault_sites(ctx, op, rpaths, apaths, nsites):
    """Thorough tier: the same normal-mode assertion again with an I/O
    error at *every* write site it has (not just the sampled one); the
    reference store must stay untouched each time."""
    W = ctx.W
    refroot = W.path('ref')
    f0 = op['fault']
    for site in range(min(nsites + 1, 8)):
        before = fsaudit.snapshot([refroot])
        fault = {'kind': f0['kind'], 'site': site,
                 'errno': ERRNO[f0['kind']],
                 'short': f0['short'] if f0['kind'] == 'short_write'
                 else None}
        ctx.seam.begin_op(fault, None)
        outcome, exc = call_assert(ctx, op, rpaths, apaths)
        fired = list(ctx.seam.fired)
        ctx.seam.begin_op(None, None)
        after = fsaudit.snapshot([refroot])
        d = fsaudit.diff(before, after)
        ctx.stats['checks']['fault_sites_enumerated'] += 1
        for f in fired:
            ctx.stats['faults'][f[0]] += 1
        if d:
            violation(ctx, op, 'ref-untouched',
                      'normal-mode-%s/%s/%s/fault-%s-enumerated' % (
                          '+'.join(sorted({c for _, c in d})),
                          op['op'][7:], outcome, f0['kind']),
                      'normal-mode assertion with %s at write site %d '
                      'changed the reference store: %r'
                      % (f0['kind'], site, [(W.rel(p), c) for p, c in d]))
            return


# --------------------------------------------------------------------------
# C10
# --------------------------------------------------------------------------

def content_tag(op):
    if op['op'] == 'assert_binary':
        return 'binary'
    if op['op'] in ('assert_df', 'assert_df_file'):
        return 'df-' + '+'.join(sorted({c['type'] for c in op['frame']}))
    texts = [op['actual']] if 'actual' in op else [
        af['text'] for af in op['actual_files']]
    tags = set()
    for t in texts:
        if '\r\n' in t:
            tags.add('crlf')
        elif '\r' in t:
            tags.add('lone-cr')
        if t and not t.endswith(('\n', '\r')):
            tags.add('no-final-newline')
        if not t:
            tags.add('empty')
        if any(ord(c) > 127 for c in t):
            tags.add('unicode')
    return '+'.join(sorted(tags)) or 'plain'


def check_c10(ctx, op, mode, outcome, exc, delta, log, fired, rpaths, apaths,
              before, after):
    W = ctx.W
    refroot = W.path('ref')
    ref_delta = [(p, c) for p, c in delta if p.startswith(refroot + os.sep)]
    opk = op['op'][7:]
    if mode is False:
        ctx.stats['checks']['normal_mode_assertions'] += 1
        if ref_delta:
            ftag = 'fault-' + fired[0][0] if fired else 'nofault'
            violation(ctx, op, 'ref-untouched',
                      'normal-mode-%s/%s/%s/%s' % (
                          '+'.join(sorted({c for _, c in ref_delta})), opk,
                          outcome, ftag),
                      'assertion in normal mode (kind=%r, table=%r) changed '
                      'reference store: %r; outcome=%s %r'
                      % (op['kind'], ctx.model.snapshot(),
                         [(W.rel(p), c) for p, c in ref_delta], outcome, exc))
        if not op.get('ref_exists', True):
            ctx.stats['probes']['normal_mode_missing_reference'] += 1
        return
    # regenerating (True) or maybe
    if fired:
        # the write of the new reference was interrupted by an I/O error:
        # nothing is promised about this attempt (nor about what a careful
        # writer leaves next to the reference), everything about the next
        ctx.stats['probes']['regeneration_interrupted_by_io_error'] += 1
        ctx.debris = getattr(ctx, 'debris', set()) | {
            p for p, c in ref_delta if c == 'created' and p not in rpaths}
        return
    allowed = set(rpaths) | getattr(ctx, 'debris', set())
    bad = [(p, c) for p, c in ref_delta if p not in allowed]
    if bad:
        violation(ctx, op, 'regen-only-own-reference', opk,
                  'regeneration touched other reference files: %r (own: %r)'
                  % ([(W.rel(p), c) for p, c in bad],
                     [W.rel(p) for p in rpaths]))
    if mode == 'maybe':
        ctx.stats['abstain']['regen_maybe_after_undocumented_argv'] += 1
        regenerated = bool(ref_delta) or any(p in allowed for _, p in log)
    else:
        ctx.stats['checks']['regen_mode_assertions'] += 1
        ctx.nontrivial = True
        if op.get('retry_after_failed_write'):
            ctx.stats['probes']['regeneration_retried_after_io_error'] += 1
        if outcome != 'pass':
            violation(ctx, op, 'regen-completes',
                      '%s/%s' % (opk, exc_tag(exc) if outcome == 'error'
                                 else 'AssertionError'),
                      'assertion in regeneration mode did not complete: %r'
                      % (exc,))
            return
        written = {p for c, p in log if c.startswith('open:')
                   and any(m in c for m in 'wax+')}
        # written elsewhere and moved into place counts as written
        written |= {p for c, p in log if c in ('rename', 'replace')}
        for p in rpaths:
            changed = any(q == p for q, _ in ref_delta)
            if not (p in written or changed):
                violation(ctx, op, 'regen-writes-reference', opk,
                          'regeneration mode on, but %s was not written '
                          '(table=%r kind=%r)' % (W.rel(p),
                                                  ctx.model.snapshot(),
                                                  op['kind']))
                return
        regenerated = True
    if not (regenerated and outcome == 'pass' and op.get('recheck')):
        return
    if op['op'] in ('assert_df', 'assert_df_file'):
        ok = roundtrippable(W)
        if not all(ok.get(c['type']) for c in op['frame']):
            ctx.stats['abstain']['df_dtype_not_parquet_roundtrippable'] += 1
            return
    # (c) switch off, re-issue the same assertion on the same actual
    cls = ctx.classes[op['client']]
    key = ctx.model.key_used(op['kind'])
    old_model = ctx.model.T.get(key)
    RT = ctx.rt.ReferenceTest
    old_real = RT.regenerate.get(key, None)
    had_real = key in RT.regenerate
    cls.set_regeneration(key, False)
    ctx.seam.begin_op(None, None)
    outcome2, exc2 = call_assert(ctx, op, rpaths, apaths)
    if had_real:
        RT.regenerate[key] = old_real
    else:
        RT.regenerate.pop(key, None)
    ctx.stats['checks']['regenerate_then_pass'] += 1
    ctx.stats['probes']['regen_recheck_' + op['op'][7:]] += 1
    ctx.events.append({'i': op['i'], 'op': 'recheck', 'outcome': outcome2,
                       'exc': exc_tag(exc2) if outcome2 == 'error' else None})
    if outcome2 != 'pass':
        violation(ctx, op, 'regenerated-passes',
                  '%s/%s/%s' % (opk, content_tag(op),
                                'opts' if op.get('opts') else 'noopts'),
                  'after regenerating, the same assertion in normal mode '
                  'gave %s: %s' % (outcome2, str(exc2)[:600]))


# --------------------------------------------------------------------------
# C04
# --------------------------------------------------------------------------

def option_tag(opts):
    return '+'.join(sorted(k for k, v in (opts or {}).items() if v)) or 'none'


def check_c04(ctx, op, outcome, exc, rpaths, apaths, sf_fired):
    opts = op.get('opts') or {}
    verdicts = []
    try:
        for j, rp in enumerate(rpaths):
            e = read_text_model(rp)
            if 'actual' in op:
                a = op['actual']
            else:
                a = read_text_model(apaths[j])
            if e is None or a is None:
                verdicts.append(('FAIL', {'missing': True}))
                continue
            verdicts.append(textcmp.verdict(a, e, opts))
    except UnicodeDecodeError:
        ctx.stats['abstain']['undecodable_after_torn_write'] += 1
        return
    if any(v == 'ABSTAIN' for v, _ in verdicts):
        for v, info in verdicts:
            if v == 'ABSTAIN':
                ctx.stats['abstain'][info['abstain']] += 1
        return
    want = 'pass' if all(v == 'PASS' for v, _ in verdicts) else 'fail'
    ctx.stats['checks']['verdicts_compared'] += 1
    ctx.stats['checks']['model_' + want] += 1
    if opts or sf_fired or op.get('muts'):
        ctx.nontrivial = True
    if any(info.get('permutation') for _, info in verdicts):
        ctx.stats['probes']['permutation_pass'] += 1
    if any(info.get('excused_diff') for _, info in verdicts):
        ctx.stats['probes']['difference_excused_by_option'] += 1
    ctx.shape.append('m%s:%s:%s' % (want[0], option_tag(opts),
                                    '+'.join(sorted(set(op.get('muts', []))))))
    entry = op['op'][7:]
    if outcome == 'error':
        if want == 'pass':
            violation(ctx, op, 'error-instead-of-pass',
                      '%s/%s/%s' % (entry, option_tag(opts), exc_tag(exc)),
                      'model says PASS; raised %r' % (exc,))
        else:
            ctx.stats['probes']['non_assertion_error_on_failing_pair'] += 1
        return
    if outcome != want:
        why = []
        for v, info in verdicts:
            why.append('%s unexcused=%r' % (v, info.get('unexcused')))
        violation(ctx, op, 'accepts-difference' if want == 'fail'
                  else 'rejects-agreeing-texts',
                  '%s/%s' % (entry, option_tag(opts)),
                  'model %s, implementation %s; options=%r\nactual=%r\n'
                  'reference=%r\nmodel: %s\nmessage: %s'
                  % (want, outcome, opts,
                     op['actual'] if 'actual' in op else
                     [read_text_model(p) for p in apaths],
                     [read_text_model(p) for p in rpaths], '; '.join(why),
                     str(exc)[:300]))


# --------------------------------------------------------------------------
# C15
# --------------------------------------------------------------------------

CMD_RE = re.compile(r'^\s+(diff|cp|fc|copy|tdda diff)\s+(\S+)\s+(\S+)\s*$',
                    re.M)


def check_c15(ctx, op, mode, outcome, exc, delta, log, rpaths, apaths,
              before, after, fired=()):
    W = ctx.W
    if mode is not False:
        return
    tmp = ctx.client_tmp.get(op['client'], ctx.tmp_dir)
    opts = op.get('opts') or {}
    entry = op['op'][7:]
    writes = [(c, p) for c, p in log]
    if not ctx.W.path('fail') == tmp:
        ctx.stats['probes']['default_tmp_dir'] += 1
        ctx.nontrivial = True
    stale = [p for p in before if p.startswith(tmp + os.sep)]
    if stale:
        ctx.stats['probes']['stale_artefacts_present'] += 1
        ctx.nontrivial = True
    if outcome == 'pass':
        ctx.stats['checks']['passing_assertions_audited'] += 1
        if delta or writes:
            violation(ctx, op, 'pass-writes-nothing', entry,
                      'passing assertion changed the filesystem: delta=%r '
                      'writes=%r' % ([(W.rel(p), c) for p, c in delta],
                                     [(c, W.rel(p)) for c, p in writes]))
        return
    # nothing outside the configured temp dir (also when writing the
    # artefacts hit an I/O error and the assertion ended in OSError)
    outside = [(p, c) for p, c in delta if not p.startswith(tmp + os.sep)]
    outside_w = [(c, p) for c, p in writes if not p.startswith(tmp + os.sep)]
    if outside or outside_w:
        violation(ctx, op, 'writes-outside-tmp-dir',
                  entry + ('/io-error' if fired else ''),
                  'failing assertion wrote outside tmp_dir %s: delta=%r '
                  'writes=%r' % (W.rel(tmp),
                                 [(W.rel(p), c) for p, c in outside],
                                 [(c, W.rel(p)) for c, p in outside_w]))
    if outcome == 'error':
        ctx.stats['abstain']['assertion_raised_non_assertion_error'] += 1
        return
    ctx.stats['checks']['failing_assertions_audited'] += 1
    # (an I/O error while writing the artefacts normally ends the assertion
    # in OSError, handled above; if it still ends as an ordinary failure the
    # message's claims about its files are checked like any other)
    msg = str(exc)
    if op.get('actual_missing'):
        # there is no actual to compare or to copy: only the audit above
        ctx.stats['abstain']['missing_actual_file'] += 1
        return
    missing_ref = not all(os.path.exists(p) for p in rpaths)
    cmds = CMD_RE.findall(msg)
    if not cmds:
        violation(ctx, op, 'names-comparison-command', entry,
                  'failure message names no diff/cp command:\n%s' % msg[:600])
        return
    if missing_ref:
        ctx.stats['abstain']['missing_reference_both_files_exist'] += 1
    else:
        for cmd, a, b in cmds:
            if cmd in ('diff', 'fc') and not (os.path.exists(a)
                                              and os.path.exists(b)):
                violation(ctx, op, 'named-files-exist', entry,
                          'message names %s %s %s but a file is missing'
                          % (cmd, W.rel(a), W.rel(b)))
                return
    if opts and outcome == 'fail':
        ctx.nontrivial = True
    if fired and 'Error comparing' in msg:
        # the multi-file entry point reports an exception raised while one
        # pair was being handled inside the failure message: the caller was
        # told, the artefacts of that pair are not promised
        ctx.stats['abstain']['artefact_write_error_reported_in_message'] += 1
        return
    if op['op'] == 'assert_binary':
        check_c15_binary(ctx, op, msg, rpaths, apaths)
        return
    if missing_ref:
        return
    # the file given as actual holds the actual content
    raw = [c for c in re.findall(
        r'Compare (raw )?with:\n\s+(?:diff|fc)\s+(\S+)\s+(\S+)', msg)]
    for j, (is_raw, a, b) in enumerate(raw[:1] if 'actual' in op else raw):
        if 'actual' in op:
            want = op['actual']
        else:
            # file entry points: it is the actual file itself
            cands = [p for p in apaths if os.path.abspath(p) == a]
            if not cands:
                violation(ctx, op, 'actual-file-is-the-actual', entry,
                          'message names %s as actual, not one of %r'
                          % (W.rel(a), [W.rel(p) for p in apaths]))
                return
            continue
        try:
            got = read_text_model(a)
        except UnicodeDecodeError:
            got = None
        def seq(t):
            # compared as line sequences; the writer joins lines without a
            # final newline, so trailing empty lines are a final-newline
            # difference (noted in DESIGN 6, not failed)
            ls = textcmp.split_lines(t)
            while ls and ls[-1] == '':
                ls = ls[:-1]
            return ls
        if got is None or seq(got) != seq(want):
            tag = 'with-remove_lines' if opts.get('remove_lines') else (
                'with-preprocess' if opts.get('preprocess') else 'plain')
            violation(ctx, op, 'actual-file-content', '%s/%s' % (entry, tag),
                      'file named as actual (%s) holds %r, actual content '
                      'was %r; options=%r' % (W.rel(a), got, want, opts))
            return
        if not a.startswith(tmp + os.sep):
            violation(ctx, op, 'actual-in-tmp-dir', entry,
                      'actual string written to %s, not under tmp_dir'
                      % W.rel(a))
    # post-processed pair
    exclusions = any(opts.get(k) for k in ('ignore_substrings',
                                           'ignore_patterns', 'remove_lines',
                                           'preprocess'))
    if not exclusions:
        return
    if op['op'] == 'assert_textfiles':
        # one block per failing pair; the pair's post-processed files, if
        # any, are named straight after its own compare command
        pairs = []
        for ap, rp in zip(apaths, rpaths):
            m = re.search(
                r'Compare (?:raw )?with:\n\s+(?:diff|fc)\s+%s\s+%s[ \t]*\n'
                r'(?:\s*\n?Compare post-processed with:\n\s+(?:diff|fc)\s+'
                r'(\S+)\s+(\S+))?' % (re.escape(os.path.abspath(ap)),
                                      re.escape(rp)), msg)
            if not m:
                continue        # pair not reported as failing
            try:
                pairs.append((read_text_model(ap), read_text_model(rp),
                              [(m.group(1), m.group(2))] if m.group(1)
                              else []))
            except UnicodeDecodeError:
                continue
        if len(pairs) > 1:
            ctx.stats['probes']['several_failing_pairs_in_one_assertion'] \
                += 1
    else:
        pp = re.findall(r'Compare post-processed with:\n\s+(?:diff|fc)\s+'
                        r'(\S+)\s+(\S+)', msg)
        try:
            e_text = read_text_model(rpaths[0])
            a_text = op['actual'] if 'actual' in op \
                else read_text_model(apaths[0])
        except UnicodeDecodeError:
            return
        pairs = [(a_text, e_text, pp)]
    for a_text, e_text, pp in pairs:
        check_c15_pp(ctx, op, entry, opts, msg, a_text, e_text, pp)


def check_c15_pp(ctx, op, entry, opts, msg, a_text, e_text, pp):
    W = ctx.W
    v, info = textcmp.verdict(a_text, e_text, opts)
    if v == 'ABSTAIN':
        ctx.stats['abstain']['postprocessed_' + info['abstain']] += 1
        return
    if v == 'PASS':
        ctx.stats['abstain']['model_says_pass(C04 matter)'] += 1
        return
    if not pp:
        # the pair is only promised when exclusions were *in force*
        if info.get('excused_diff') or info.get('removed'):
            violation(ctx, op, 'post-processed-pair-written',
                      '%s/%s' % (entry, option_tag(opts)),
                      'exclusions took effect (excused=%r removed=%r) but no '
                      'post-processed pair is named:\n%s'
                      % (info.get('excused_diff'), info.get('removed'),
                         msg[:500]))
        else:
            ctx.stats['abstain']['exclusions_configured_but_idle'] += 1
        return
    pa, pe = pp[0]
    if not (os.path.exists(pa) and os.path.exists(pe)):
        violation(ctx, op, 'post-processed-files-exist', entry,
                  '%s / %s' % (W.rel(pa), W.rel(pe)))
        return
    ctx.stats['checks']['post_processed_pairs_checked'] += 1
    ta, te = read_text_model(pa), read_text_model(pe)
    la = textcmp.split_lines(ta)
    le = textcmp.split_lines(te)
    if ta == te:
        violation(ctx, op, 'post-processed-pair-differs',
                  '%s/%s' % (entry, option_tag(opts)),
                  'assertion failed but post-processed files are identical')
        return
    if info.get('unexcused') is None or opts.get('preprocess') \
            or info.get('removed'):
        ctx.stats['abstain']['postprocessed_positions_undefined'] += 1
        return
    # same number of lines, no removals, no preprocess: positions defined.
    # strip the header (the raw compare command block between *** lines)
    def body(ls):
        if ls and ls[0] == '***':
            try:
                k = ls.index('***', 1)
                ls = ls[k + 1:]
                if ls and ls[0] == '':
                    ls = ls[1:]
            except ValueError:
                pass
        return ls
    # the writer joins the lines with newlines, so a final empty line and a
    # final newline look alike in the file: take the reading whose line
    # count is the model's
    def reading(text, want_n):
        ls = body(text.split('\n'))
        for cand in (ls, ls[:-1] if ls and ls[-1] == '' else None,
                     ls[:-2] if ls[-2:] == ['', ''] else None):
            if cand is not None and len(cand) == want_n:
                return cand
        return body(textcmp.split_lines(text))
    ba, be = reading(ta, info['n_actual']), reading(te, info['n_expected'])
    if len(ba) != len(be):
        violation(ctx, op, 'post-processed-positions',
                  '%s/%s/length' % (entry, option_tag(opts)),
                  'post-processed bodies have %d and %d lines'
                  % (len(ba), len(be)))
        return
    got = [i for i in range(len(ba)) if ba[i] != be[i]]
    if got != info['unexcused']:
        violation(ctx, op, 'post-processed-positions',
                  '%s/%s' % (entry, option_tag(opts)),
                  'post-processed files differ at lines %r, unexcused '
                  'differences are at %r\nactual=%r\nreference=%r\nopts=%r'
                  % (got, info['unexcused'], a_text, e_text, opts))


def check_c15_binary(ctx, op, msg, rpaths, apaths):
    if not os.path.exists(rpaths[0]):
        return
    with io.open(rpaths[0], 'rb') as f:
        e = f.read()
    a = bytes.fromhex(op['actual_files'][0]['hex'])
    n = min(len(a), len(e))
    off = next((i for i in range(n) if a[i] != e[i]), n)
    m = re.search(r'First difference at byte offset (\d+), (.*)\.', msg)
    if not m:
        violation(ctx, op, 'binary-offset-reported', 'binary',
                  'no offset line in message:\n%s' % msg[:400])
        return
    ctx.stats['checks']['binary_offsets_checked'] += 1
    if int(m.group(1)) != off:
        violation(ctx, op, 'binary-offset-exact', 'binary',
                  'reported offset %s, first differing byte is %d '
                  '(lengths %d/%d)' % (m.group(1), off, len(a), len(e)))
    li = m.group(2)
    if len(a) == len(e):
        ok = li == 'both files have length %d' % len(a)
    else:
        ok = li == 'actual length %d, expected length %d' % (len(a), len(e))
    if not ok:
        violation(ctx, op, 'binary-lengths-exact', 'binary',
                  'reported %r; actual %d expected %d' % (li, len(a), len(e)))


# --------------------------------------------------------------------------
# typed shrinkers
# --------------------------------------------------------------------------

def shrink(plan):
    for idx, op in enumerate(plan['ops']):
        if not op['op'].startswith('assert_'):
            continue
        for k in list(op.get('opts') or {}):
            cand = copy.deepcopy(plan)
            del cand['ops'][idx]['opts'][k]
            yield cand
        for key in ('recheck',):
            if op.get(key):
                cand = copy.deepcopy(plan)
                cand['ops'][idx][key] = False
                yield cand
        # shorten texts line by line (actual and reference together)
        if 'actual' in op:
            al = op['actual'].splitlines(True)
            for i in range(len(al)):
                cand = copy.deepcopy(plan)
                cand['ops'][idx]['actual'] = ''.join(al[:i] + al[i + 1:])
                yield cand
        for j, af in enumerate(op.get('actual_files', [])):
            if 'text' in af:
                al = af['text'].splitlines(True)
                for i in range(len(al)):
                    cand = copy.deepcopy(plan)
                    cand['ops'][idx]['actual_files'][j]['text'] = ''.join(
                        al[:i] + al[i + 1:])
                    yield cand
        for j, t in enumerate(op.get('ref0', [])):
            if isinstance(t, str) and op['op'] != 'assert_binary':
                rl = t.splitlines(True)
                for i in range(len(rl)):
                    cand = copy.deepcopy(plan)
                    cand['ops'][idx]['ref0'][j] = ''.join(rl[:i] + rl[i + 1:])
                    yield cand
    for idx, op in enumerate(plan['ops']):
        if op['op'] == 'write_ref':
            rl = op['text'].splitlines(True)
            for i in range(len(rl)):
                cand = copy.deepcopy(plan)
                cand['ops'][idx]['text'] = ''.join(rl[:i] + rl[i + 1:])
                yield cand
    cl = plan['config']['clients']
    if len(cl) > 1:
        used = {op.get('client') for op in plan['ops']}
        bases = {c['base'] for c in cl}
        for i, c in enumerate(cl):
            if c['id'] not in used and c['id'] not in bases:
                cand = copy.deepcopy(plan)
                del cand['config']['clients'][i]
                yield cand
