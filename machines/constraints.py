"""
M-CON: constraints on frames, files and the CLI process (C01, C06, C09, C17).

System (real code): discover_df, verify_df, detect_df, DatasetConstraints
(to_json / load / initialize_from_dict), console.main_with_argv with the
pandas extension.  Frames live in a per-run pool and are *shared objects*
across ops and clients; files live in the world's data directory.
"""

import collections
import copy
import io
import json
import os
import re
import sys
import types

from sim import fsaudit
from sim.world import World
from sim.watchdog import WatchdogTimeout
from gens import frames as gf
from gens import constraints as gcs
from models import records as mrec

NAME = 'M-CON'
PROPS = ('C01', 'C06', 'C09', 'C17')
TIERS = {
    'C01': {'quick': {'runs': 5000, 'wall_cap': 280},
            'thorough': {'runs': 120000, 'wall_cap': 1800}},
    'C06': {'quick': {'runs': 5000, 'wall_cap': 280},
            'thorough': {'runs': 60000, 'wall_cap': 1800}},
    'C09': {'quick': {'runs': 5000, 'wall_cap': 280},
            'thorough': {'runs': 60000, 'wall_cap': 1800}},
    'C17': {'quick': {'runs': 3000, 'wall_cap': 280},
            'thorough': {'runs': 40000, 'wall_cap': 1800}},
}
LEVELS = {p: 'exploration' for p in PROPS}
STATES_MEASURE = ('distinct (frame dtype signature, constraint-kind set, '
                  'option vector, output-path state before op in {absent, '
                  'stale, fresh}) tuples')
COMPONENTS = {
    'real': ['tdda.constraints.discover_df / verify_df / detect_df',
             'tdda.constraints.base.DatasetConstraints (to_json, load, '
             'initialize_from_dict)', 'tdda.constraints.console.'
             'main_with_argv + pd extension (C17), in-process',
             'tdda.rexpy (rex discovery)', 'pandas / pyarrow readers and '
             'writers', 'real files in a RAM directory tree'],
    'stub': ['hostname / user for creation metadata',
             'CLI process boundary: argv, stdin, stdout, exit status and cwd '
             'are owned by the harness (SystemExit caught)',
             'wall clock is NOT stubbed in this machine: base.py tests '
             '`type(v) is datetime.datetime`, which a shimmed class would '
             'break; re-stamping on load is made observable by planting old '
             'timestamps in the files instead'],
}
RULES = {
    'C01': 'each run = 1-2 shared frames over the recognised column types; '
           'histories discover(rex on/off) -> verify/detect with the '
           'constraints as dict, as a written .tdda file, or after k '
           'write/load cycles, repair on/off, interleaved with another '
           'client\'s in-place/repair ops on the same frame object; '
           'non-trivial = file round trip or >= 2 clients on one frame or '
           'rex discovery; distinct = distinct (frame signature, op/option '
           'sequence, verdicts) shapes',
    'C06': 'each run = a frame, a near-miss or hand-written constraint set, '
           '1-4 detect ops with seeded options on a shared output path '
           '(absent / stale file planted / left by an earlier op) and shared '
           'frame; checked against verify on a copy and the M-rec per-record '
           'model; non-trivial = some constraint failed or a stale file was '
           'present; distinct = distinct (frame signature, failing kinds, '
           'option vector, path state) shapes',
    'C09': 'each run = discovered or hand-written constraint sets, 1-4 '
           'write/load cycles on real files (shorter over longer content), '
           'verification verdicts via dict (fresh copy, or one dictionary '
           'object passed again and again) / path / reloaded object on the '
           'pool frames, noise (unknown kinds, # keys, null values); '
           'non-trivial = >= 2 cycles or noise or date/precision/unicode '
           'content; distinct = distinct (constraint-kind set, cycle count, '
           'verdict vector) shapes',
    'C17': 'each run = a table written as CSV and/or parquet, then CLI '
           'discover / verify / detect invocations (flag combinations, stdin '
           '/ stdout forms) next to the same library calls on the loaded '
           'frame, plus the property\'s own fault list (missing input, '
           'missing constraints, unknown flag, contradictory flags) x '
           '{output path absent, stale}; non-trivial = a fault kind fired or '
           'a differential comparison was made; distinct = distinct (command, '
           'flags, file kind, fault, outcome) shapes',
}
ASSUMPTIONS = {
    'C01': ['closure is only demanded while the frame is the one '
            'discovery saw (fingerprint); after another client mutated it '
            'the oracle abstains until re-discovery',
            'frames containing pandas-3 `str` or nullable `string` columns '
            'are not "recognised types": generated at a low rate, no '
            'obligation'],
    'C06': ['M-rec abstains when a bound\'s coarse type differs from the '
            'column\'s, for inf/NaN bounds and bool columns under sign',
            'flag comparison needs per_constraint output'],
    'C09': ['whole-text identity is demanded when tddafile is passed on both '
            'sides; otherwise on the fields section (the loader adds a '
            'tddafile key)'],
    'C17': ['CLI executed in-process via console.main_with_argv; stdout and '
            'exit status captured'],
}


# --------------------------------------------------------------------------
# generation
# --------------------------------------------------------------------------

def all_recognised(spec):
    return all(c['kind'] in gf.RECOGNISED for c in spec['columns'])


def gen_via(r):
    via = r.weighted([(3, 'dict'), (3, 'file'), (2, 'cycled')])
    d = {'via': via}
    if via == 'dict' and r.chance(0.5):
        # the caller keeps one dictionary object per constraint set and
        # passes that same object every time
        d['held'] = True
    if via != 'dict' and r.chance(0.7):
        d['tdda_name'] = r.pick(['constraints.tdda', 'a.tdda', 'b.tdda'])
    if via == 'cycled':
        d['cycles'] = r.randint(2, 4)
    return d


def gen_detect_opts(r, spec, for_c01=False):
    o = {}
    o['outpath'] = r.weighted([(3, None), (4, 'out.csv'), (3, 'out.parquet')])
    if o['outpath'] and r.chance(0.3):
        o['outpath_relative'] = True
    if r.chance(0.5):
        o['per_constraint'] = True
    if r.chance(0.35):
        o['write_all'] = True
    k = r.weighted([(4, None), (3, 'all'), (2, 'some')])
    if k == 'all':
        o['output_fields'] = []
    elif k == 'some' and spec['columns']:
        o['output_fields'] = [r.pick(spec['columns'])['name']]
    if r.chance(0.3):
        o['index'] = True
    if r.chance(0.2):
        o['in_place'] = True
    if r.chance(0.25) and o.get('output_fields') == []:
        o['interleave'] = True
    if r.chance(0.25):
        o['boolean_ints'] = True
    if r.chance(0.4):
        o['repair'] = False
    if r.chance(0.3):
        o['epsilon'] = r.pick([0.0, 0.01, 0.5])
    return o


def gen_c01(r, tier):
    nframes = r.weighted([(7, 1), (3, 2)])
    frames = [gf.gen_frame(r) for _ in range(nframes)]
    ops = []
    for _ in range(r.randint(1, 3)):
        fi = r.randrange(nframes)
        name = 'cs%d' % len(ops)
        ops.append({'op': 'discover', 'client': 'A', 'frame': fi,
                    'rex': r.chance(0.5), 'into': name})
        for _ in range(r.randint(1, 4)):
            k = r.weighted([(5, 'verify'), (4, 'detect'), (1.5, 'perturb')])
            if k == 'verify':
                op = {'op': 'verify', 'client': 'A', 'frame': fi, 'cs': name,
                      'repair': r.chance(0.6)}
                op.update(gen_via(r))
            elif k == 'detect':
                op = {'op': 'detect', 'client': 'A', 'frame': fi, 'cs': name,
                      'opts': gen_detect_opts(r, frames[fi])}
                op.update(gen_via(r))
                if op['opts'].get('outpath') and r.chance(0.25):
                    # something is already at the output path
                    ops.append({'op': 'stale_output', 'client': 'B',
                                'path': op['opts']['outpath'],
                                'junk': r.pick(['junk',
                                                'Index,n_failures\n0,3\n'])})
            else:
                # another client working on the same frame object
                op = {'op': 'detect', 'client': 'B', 'frame': fi,
                      'cs_inline': gcs.near_miss(r, frames[fi]),
                      'via': 'dict',
                      'opts': {'in_place': r.chance(0.6), 'repair': True,
                               'per_constraint': r.chance(0.5)}}
                if r.chance(0.4):
                    # ... leaving its failing records where A writes too
                    op['opts']['outpath'] = r.pick(['out.csv', 'out.parquet'])
                    op['opts']['in_place'] = False
            ops.append(op)
    return {'config': {'frames': frames,
                       'identity_fault': r.weighted([(12, None),
                                                     (1, 'keyerror'),
                                                     (0.5, 'oserror')]),
                       'deprecations_are_errors': r.chance(0.08),
                       'default_encoding': r.weighted([(8, None),
                                                       (0.5, 'ascii'),
                                                       (0.5, 'cp1252'),
                                                       (0.5, 'latin-1')])},
            'ops': ops}


def gen_c09(r, tier):
    nframes = r.weighted([(6, 1), (4, 2)])
    frames = [gf.gen_frame(r) for _ in range(nframes)]
    ops = []
    for j in range(r.randint(1, 3)):
        name = 'cs%d' % j
        if r.chance(0.45):
            ops.append({'op': 'discover', 'client': 'A',
                        'frame': r.randrange(nframes), 'rex': r.chance(0.6),
                        'into': name})
        else:
            ops.append({'op': 'handwritten', 'client': 'A', 'into': name,
                        'cs': gcs.gen_handwritten(
                            r, frames[r.randrange(nframes)])})
        path = r.pick(['c.tdda', 'shared.tdda', 'c%d.tdda' % j,
                       'sales_$REGION.tdda', 'cs_${REGION}.tdda'])
        ops.append({'op': 'roundtrip', 'client': 'A', 'cs': name,
                    'path': path, 'cycles': r.randint(1, 4),
                    'tddafile': r.chance(0.6),
                    'copy_saved_first': r.chance(0.15),
                    'disturb': r.weighted([(7, None), (1.5, 'delete'),
                                           (1.5, 'other-set')]),
                    'default_encoding': r.weighted([(8, None), (1, 'cp1252'),
                                                    (1, 'latin-1')])})
        for _ in range(r.randint(1, 2)):
            ops.append({'op': 'verdicts', 'client': 'A', 'cs': name,
                        'path': path, 'frame': r.randrange(nframes),
                        'repair': r.chance(0.5),
                        'type_checking': r.pick([None, 'strict', 'sloppy']),
                        'epsilon': r.pick([None, 0.01]),
                        'reuse_dict': r.chance(0.5),
                        'via_pipe': r.chance(0.2)})
        if r.chance(0.5):
            ops.append({'op': 'noise', 'client': 'A', 'cs': name,
                        'frame': r.randrange(nframes),
                        'seed': r.getrandbits(32),
                        'warnings_as_errors': r.chance(0.3)})
    return {'config': {'frames': frames,
                       'identity_fault': r.weighted([(12, None),
                                                     (1, 'keyerror'),
                                                     (0.5, 'oserror')]),
                       'deprecations_are_errors': r.chance(0.08),
                       'default_encoding': r.weighted([(8, None),
                                                       (0.5, 'ascii'),
                                                       (0.5, 'cp1252'),
                                                       (0.5, 'latin-1')])},
            'ops': ops}


def gen_c06(r, tier):
    spec = gf.gen_frame(r, kinds=[
        (3, 'int'), (1, 'uint'), (1.5, 'Int64'), (3, 'float'), (1, 'bool'),
        (0.7, 'objbool'), (4, 'str'), (1.5, 'category'), (1.5, 'dt_ns'),
        (0.5, 'dt_s'), (0.5, 'date')])
    while spec['nrows'] == 0 and r.chance(0.7):
        spec = gf.gen_frame(r)
    ops = []
    outnames = {}
    for j in range(r.randint(1, 4)):
        cs = gcs.near_miss(r, spec) if r.chance(0.8) else \
            gcs.gen_handwritten(r, spec)
        opts = gen_detect_opts(r, spec)
        if r.chance(0.6):
            opts['per_constraint'] = True
        if opts.get('outpath') and r.chance(0.35):
            ops.append({'op': 'stale_output', 'client': 'B',
                        'path': opts['outpath'],
                        'junk': r.pick(['junk', 'Index,n_failures\n0,3\n',
                                        ''])})
        ops.append({'op': 'detect', 'client': r.pick(['A', 'B']), 'frame': 0,
                    'cs_inline': cs, 'via': r.pick(['dict', 'file']),
                    'opts': opts,
                    'type_checking': r.pick([None, None, 'strict'])})
        if opts.get('outpath') and r.chance(0.12):
            ops[-1]['remove_fault'] = True
        if ops[-1]['via'] == 'file' and r.chance(0.6):
            # the user keeps rewriting one constraints file
            ops[-1]['tdda_name'] = r.pick(['constraints.tdda', 'c.tdda'])
    frames = [spec]
    if r.chance(0.3):
        # another table handled earlier in the same process has columns of
        # the same names but other types (an "events" table whose `when` is
        # a timestamp, a "summary" table whose `when` is a number)
        other = gf.gen_frame(r, kinds=[(3, 'dt_ns'), (1, 'dt_s'), (2, 'int'),
                                       (2, 'str'), (1, 'float')])
        names = [c['name'] for c in spec['columns']]
        r.shuffle(names)
        for c, nm in zip(other['columns'], names):
            c['name'] = nm
        seen = set()
        other['columns'] = [c for c in other['columns']
                            if not (c['name'] in seen or seen.add(c['name']))]
        frames.append(other)
        pre = []
        for _ in range(r.randint(1, 2)):
            pre.append({'op': r.pick(['detect', 'verify']), 'client': 'B',
                        'frame': 1, 'cs_inline': gcs.near_miss(r, other),
                        'via': 'dict', 'repair': True,
                        'opts': {'per_constraint': r.chance(0.5)}})
        ops = pre + ops
    return {'config': {'frames': frames}, 'ops': ops}


def gen_plan(prop, r, tier, run):
    plan = {'C01': gen_c01, 'C09': gen_c09, 'C06': gen_c06,
            'C17': gen_c17}[prop](r, tier)
    for i, op in enumerate(plan['ops']):
        op['i'] = i
    return plan


# --------------------------------------------------------------------------
# execution
# --------------------------------------------------------------------------

class Ctx(object):
    pass


def fingerprint(df):
    import pandas as pd
    try:
        h = int(pd.util.hash_pandas_object(df, index=True).sum())
    except Exception:
        h = repr(df.to_dict())
    return (tuple(str(c) for c in df.columns),
            tuple(str(t) for t in df.dtypes), h)


def deep_equal(a, b):
    """Values, dtypes, columns, index."""
    if list(a.columns) != list(b.columns):
        return False
    if [str(t) for t in a.dtypes] != [str(t) for t in b.dtypes]:
        return False
    if not a.index.equals(b.index):
        return False
    return a.equals(b)


def exc_tag(e):
    import traceback
    fn = '?'
    for fr in traceback.extract_tb(e.__traceback__):
        if '/tdda/' in fr.filename:
            fn = fr.name
    return '%s@%s' % (type(e).__name__, fn)


def violation(ctx, op, clause, tag, detail):
    sig = '%s/%s/%s' % (ctx.prop, clause, tag)
    ctx.violations.append({'clause': clause, 'signature': sig,
                           'detail': ctx.W.scrub(detail)[:4000],
                           'at_op': op['i']})


def execute(plan):
    import pandas as pd
    import warnings
    from tdda.constraints import base
    from tdda.rexpy import rexpy

    prop = plan['property']
    ctx = Ctx()
    ctx.prop = prop
    ctx.events = []
    ctx.violations = []
    ctx.stats = {'faults': collections.Counter(),
                 'probes': collections.Counter(),
                 'abstain': collections.Counter(),
                 'checks': collections.Counter()}
    ctx.states = set()
    ctx.shape = []
    ctx.nontrivial = False
    saved = {'socket': base.socket, 'getpass': base.getpass,
             'stdout': sys.stdout, 'stderr': sys.stderr, 'argv': sys.argv,
             'stdin': sys.stdin}
    with World() as W, warnings.catch_warnings():
        warnings.simplefilter('ignore')
        if plan['config'].get('deprecations_are_errors'):
            # the process runs with -W error::DeprecationWarning (a common
            # CI setting)
            warnings.simplefilter('error', DeprecationWarning)
            ctx.stats['faults']['deprecation_warnings_are_errors'] += 1
        ctx.W = W
        base.socket = types.SimpleNamespace(gethostname=lambda: 'simhost')
        idf = plan['config'].get('identity_fault')

        def getuser():
            # a container whose uid has no passwd entry and no USER/LOGNAME:
            # KeyError from pwd.getpwuid up to Python 3.12, OSError from 3.13
            if idf:
                ctx.stats['faults']['getuser_fails_' + idf] += 1
                ctx.nontrivial = True
                if idf == 'keyerror':
                    raise KeyError('getpwuid(): uid not found: 54321')
                raise OSError('No username set in the environment')
            return 'simuser'
        base.getpass = types.SimpleNamespace(getuser=getuser)
        rexpy.memo.clear()
        sys.stdout = io.StringIO()
        sys.stderr = io.StringIO()
        try:
            ctx.default_encoding = plan['config'].get('default_encoding')
            # a variable some file names happen to mention ($REGION is a
            # legal part of a file name; nobody asked for it to be expanded)
            os.environ['REGION'] = 'emea'
            ctx.specs = plan['config']['frames']
            ctx.frames = [gf.build_frame(s) for s in ctx.specs]
            ctx.cs = {}
            clients = set()
            for op in plan['ops']:
                clients.add((op.get('client'), op.get('frame')))
                sys.stdout.seek(0)
                sys.stdout.truncate()
                sys.stderr.seek(0)
                sys.stderr.truncate()
                OPS[op['op']](ctx, op)
            if len({c for c, f in clients}) > 1:
                ctx.nontrivial = True
        finally:
            sys.stdout = saved['stdout']
            sys.stderr = saved['stderr']
            sys.argv = saved['argv']
            sys.stdin = saved['stdin']
            base.socket = saved['socket']
            base.getpass = saved['getpass']
            rexpy.memo.clear()
    inter = ''.join('%s%s' % (op.get('client', '-'), op['op'][:2])
                    for op in plan['ops'])
    return {'events': ctx.events, 'violations': ctx.violations,
            'stats': {k: dict(v) for k, v in ctx.stats.items()},
            'shape': '|'.join(ctx.shape), 'nontrivial': ctx.nontrivial,
            'states': sorted(ctx.states), 'interleaving': inter,
            'sim_time': 0}


def scrub_meta(text):
    """Remove wall-clock stamps from serialised constraints (for logs)."""
    return re.sub(r'"(local_time|utc_time)": "[^"]*"', r'"\1": "T"', text)


def frame_class(spec):
    return '+'.join(sorted({c['kind'] for c in spec['columns']})) + (
        ':0rows' if spec['nrows'] == 0 else '')


# ---- discover ------------------------------------------------------------

def op_discover(ctx, op):
    from tdda.constraints import discover_df
    df = ctx.frames[op['frame']]
    spec = ctx.specs[op['frame']]
    fp0 = fingerprint(df)
    try:
        cs = discover_df(df, inc_rex=op['rex'])
        outcome = 'ok'
    except WatchdogTimeout:
        raise
    except Exception as e:
        cs, outcome, exc = None, 'exc', e
    rec = {'obj': cs, 'frame': op['frame'], 'fp': fingerprint(df),
           'rex': op['rex'], 'discovered': True}
    ctx.cs[op['into']] = rec
    ctx.events.append({'i': op['i'], 'op': 'discover', 'outcome': outcome,
                       'json': scrub_meta(cs.to_json()) if cs else None})
    ctx.shape.append('D%s%s' % ('r' if op['rex'] else '', outcome[0]))
    if op['rex']:
        ctx.nontrivial = True
    rec_ok = all_recognised(spec)
    if outcome == 'exc':
        if ctx.prop == 'C01':
            if rec_ok:
                violation(ctx, op, 'discover-raises',
                          '%s/%s' % (exc_tag(exc), 'rex' if op['rex']
                                     else 'norex'),
                          'discover_df(inc_rex=%s) raised %r on frame %s\n%s'
                          % (op['rex'], exc, frame_class(spec),
                             df.to_string()[:1500]))
            else:
                ctx.stats['abstain']['unrecognised_column_types'] += 1
        return
    if ctx.prop == 'C01':
        ctx.stats['checks']['discoveries'] += 1
        if fingerprint(df) != fp0:
            violation(ctx, op, 'discover-mutates-frame', frame_class(spec),
                      'discover_df changed the caller\'s frame')


def op_handwritten(ctx, op):
    ctx.cs[op['into']] = {'obj': None, 'dict': op['cs'], 'frame': None,
                          'fp': None, 'discovered': False}
    ctx.events.append({'i': op['i'], 'op': 'handwritten'})
    ctx.shape.append('H')


def cs_dict(rec):
    if rec.get('obj') is not None:
        return rec['obj'].to_dict()
    return copy.deepcopy(rec['dict'])


def cs_text(rec, tddafile=None):
    from tdda.constraints.base import DatasetConstraints
    if rec.get('obj') is not None:
        return rec['obj'].to_json(tddafile=tddafile)
    # a hand-written file, as a user would write it
    return json.dumps(rec['dict'], indent=4, ensure_ascii=False) + '\n'


def materialise(ctx, op, rec):
    """The constraints argument for verify/detect: dict or path."""
    from tdda.constraints.base import DatasetConstraints
    via = op.get('via', 'dict')
    if via == 'dict':
        if op.get('held'):
            if 'held' not in rec:
                rec['held'] = cs_dict(rec)
            else:
                ctx.stats['probes']['same_dict_object_passed_again'] += 1
            return rec['held']
        return cs_dict(rec)
    # a few shared file names: real users keep rewriting one constraints
    # file, so a path is often loaded, rewritten and loaded again
    path = ctx.W.path('data', op.get('tdda_name') or 'cs_%d.tdda' % op['i'])
    text = cs_text(rec, tddafile=path)
    with io.open(path, 'w', encoding='utf-8') as f:
        f.write(text)
    ctx.nontrivial = True
    if via == 'cycled':
        for _ in range(op.get('cycles', 2)):
            obj = DatasetConstraints(loadpath=path)
            text = obj.to_json(tddafile=path)
            with io.open(path, 'w', encoding='utf-8') as f:
                f.write(text)
        ctx.stats['probes']['write_load_cycles'] += op.get('cycles', 2)
    return path


def get_rec(ctx, op):
    if 'cs_inline' in op:
        return {'obj': None, 'dict': op['cs_inline'], 'frame': None,
                'fp': None, 'discovered': False}
    return ctx.cs.get(op['cs'])


def verdict_map(v):
    return [(f, [(k, None if s is None else bool(s)) for k, s in fv.items()])
            for f, fv in v.fields.items()]


# ---- verify --------------------------------------------------------------

def enc_env(ctx):
    """The process's default text encoding, where the plan varies it."""
    import contextlib
    from sim.defaultenc import DefaultEncoding
    if getattr(ctx, 'default_encoding', None):
        return DefaultEncoding(ctx.default_encoding, ctx.stats['faults'])
    return contextlib.nullcontext()


def op_verify(ctx, op):
    from tdda.constraints import verify_df
    rec = get_rec(ctx, op)
    if rec is None or (rec.get('obj') is None and 'dict' not in rec):
        ctx.events.append({'i': op['i'], 'op': 'verify', 'outcome': 'no-cs'})
        return
    df = ctx.frames[op['frame']]
    spec = ctx.specs[op['frame']]
    same = rec.get('fp') is not None and rec['fp'] == fingerprint(df) \
        and rec['frame'] == op['frame']
    try:
        arg = materialise(ctx, op, rec)
        with enc_env(ctx):
            v = verify_df(df, arg, repair=op.get('repair', True))
        outcome = 'ok'
    except WatchdogTimeout:
        raise
    except Exception as e:
        v, outcome, exc = None, 'exc', e
    ctx.events.append({'i': op['i'], 'op': 'verify', 'outcome': outcome,
                       'map': verdict_map(v) if v else None})
    ctx.shape.append('V%s%s%s' % (op.get('via', 'd')[0],
                                  'r' if op.get('repair', True) else '',
                                  outcome[0]))
    if ctx.prop != 'C01' or not rec.get('discovered'):
        return
    if not all_recognised(spec):
        ctx.stats['abstain']['unrecognised_column_types'] += 1
        return
    if not same:
        ctx.stats['abstain']['frame_mutated_by_other_client'] += 1
        return
    ctx.stats['checks']['closure_verifications'] += 1
    ctx.states.add('%s|V|%s|%s' % (gf.frame_signature(spec),
                                   op.get('via'), op.get('repair', True)))
    tag = '%s/%s' % (op.get('via', 'dict'),
                     'repair' if op.get('repair', True) else 'norepair')
    if outcome == 'exc':
        violation(ctx, op, 'verify-raises', '%s/%s' % (exc_tag(exc), tag),
                  'verify_df raised %r on the frame its constraints were '
                  'discovered from (%s)\n%s' % (exc, frame_class(spec),
                                                df.to_string()[:1200]))
        return
    if v.failures != 0:
        bad = [(f, k) for f, m in verdict_map(v) for k, s in m if s is False]
        kinds = sorted({'%s:%s' % (col_kind(spec, f), k) for f, k in bad})
        violation(ctx, op, 'closure', '%s/%s' % (kinds[0], tag),
                  'constraints discovered from this frame fail on it: %r\n'
                  'constraints: %s\nframe:\n%s'
                  % (bad, scrub_meta(json.dumps(cs_dict(rec), default=str,
                                                ensure_ascii=False))[:1500],
                     df.to_string()[:1200]))


def col_kind(spec, name):
    for c in spec['columns']:
        if c['name'] == name:
            return c['kind']
    return '?'


# ---- detect --------------------------------------------------------------

def detect_kwargs(ctx, op):
    o = dict(op.get('opts') or {})
    kw = {}
    if o.get('outpath'):
        kw['outpath'] = ctx.W.path('data', o['outpath'])
    for k in ('per_constraint', 'write_all', 'index', 'in_place',
              'interleave', 'boolean_ints'):
        if o.get(k):
            kw[k] = True
    if 'output_fields' in o and o['output_fields'] is not None:
        kw['output_fields'] = list(o['output_fields'])
    if 'repair' in o:
        kw['repair'] = o['repair']
    if o.get('epsilon') is not None:
        kw['epsilon'] = o['epsilon']
    if op.get('type_checking'):
        kw['type_checking'] = op['type_checking']
    return kw


class RemoveFails(object):
    """os.remove/os.unlink of one file fails (EBUSY) while this is active."""

    def __init__(self, path):
        self.target = os.path.realpath(path)
        self.fired = 0

    def __enter__(self):
        self._remove, self._unlink = os.remove, os.unlink
        me = self

        def failing(path, *a, **kw):
            try:
                hit = os.path.realpath(os.fspath(path)) == me.target
            except Exception:
                hit = False
            if hit:
                me.fired += 1
                raise fsaudit.FsFaultInjected(16, 'Device or resource busy',
                                              str(path))
            return me._remove(path, *a, **kw)
        os.remove = failing
        os.unlink = failing
        return self

    def __exit__(self, *exc):
        os.remove, os.unlink = self._remove, self._unlink
        return False


def op_detect(ctx, op):
    from tdda.constraints import detect_df, verify_df
    rec = get_rec(ctx, op)
    if rec is None or (rec.get('obj') is None and 'dict' not in rec):
        ctx.events.append({'i': op['i'], 'op': 'detect', 'outcome': 'no-cs'})
        return
    df = ctx.frames[op['frame']]
    spec = ctx.specs[op['frame']]
    same = rec.get('fp') is not None and rec['fp'] == fingerprint(df) \
        and rec['frame'] == op['frame']
    kw = detect_kwargs(ctx, op)
    outpath = kw.get('outpath')
    before_df = df.copy(deep=True)
    pre_state = 'none'
    pre_sig = None
    if outpath:
        if os.path.exists(outpath):
            pre_state = ctx.path_state.get(outpath, 'fresh') \
                if hasattr(ctx, 'path_state') else 'fresh'
            pre_sig = fsaudit.snapshot([outpath]).get(outpath)
        else:
            pre_state = 'absent'
    call_kw = dict(kw)
    rel = bool(outpath) and bool((op.get('opts') or {}).get(
        'outpath_relative'))
    seam = None
    if op.get('remove_fault') and outpath and os.path.exists(outpath):
        # the stale output file cannot be removed at this moment (busy,
        # bind-mounted, open elsewhere)
        seam = RemoveFails(outpath)
        seam.__enter__()
    saved_cwd = os.getcwd()
    try:
        arg = materialise(ctx, op, rec)
        if rel:
            # the output named by a bare file name, relative to the
            # directory the process is in
            os.chdir(os.path.dirname(outpath))
            call_kw['outpath'] = os.path.basename(outpath)
            ctx.stats['probes']['relative_output_path'] += 1
        with enc_env(ctx):
            v = detect_df(df, arg, **call_kw)
        outcome = 'ok'
    except WatchdogTimeout:
        raise
    except Exception as e:
        v, outcome, exc = None, 'exc', e
    finally:
        if rel:
            os.chdir(saved_cwd)
        fired_remove = False
        if seam is not None:
            fired_remove = seam.fired > 0
            seam.__exit__(None, None, None)
            if fired_remove:
                ctx.stats['faults']['stale_output_cannot_be_removed'] += 1
    if fired_remove and outcome == 'exc':
        # the caller was told
        ctx.stats['abstain']['remove_error_reported'] += 1
        ctx.events.append({'i': op['i'], 'op': 'detect',
                           'outcome': 'remove-error-reported'})
        return
    det = None
    if v is not None:
        try:
            det = v.detected()
        except Exception:
            det = None
    exists_after = bool(outpath) and os.path.exists(outpath)
    ev = {'i': op['i'], 'op': 'detect', 'outcome': outcome,
          'map': verdict_map(v) if v else None,
          'exc': exc_tag(exc) if outcome == 'exc' else None,
          'n': (None if v is None or v.detection is None else
                [int(v.detection.n_passing_records),
                 int(v.detection.n_failing_records)]),
          'file_after': exists_after, 'pre': pre_state}
    ctx.events.append(ev)
    ctx.shape.append('T%s%s:%s:%s' % (
        op.get('via', 'd')[0], outcome[0],
        ''.join(sorted(k[0] for k in kw if k != 'outpath')),
        pre_state[0]))
    if not hasattr(ctx, 'path_state'):
        ctx.path_state = {}
    if outpath:
        ctx.path_state[outpath] = 'fresh' if exists_after else 'absent'

    if ctx.prop == 'C01':
        if not rec.get('discovered'):
            if fingerprint(df) != fingerprint(before_df):
                ctx.stats['faults']['shared_frame_mutated_by_other_client'] \
                    += 1
            return
        if not all_recognised(spec):
            ctx.stats['abstain']['unrecognised_column_types'] += 1
            return
        if not same:
            ctx.stats['abstain']['frame_mutated_by_other_client'] += 1
            return
        ctx.stats['checks']['closure_detections'] += 1
        ctx.states.add('%s|T|%s|%s' % (gf.frame_signature(spec),
                                       op.get('via'), sorted(kw)))
        tag = '%s/%s' % (op.get('via', 'dict'),
                         'norepair' if kw.get('repair') is False
                         else 'repair')
        if outcome == 'exc':
            violation(ctx, op, 'detect-raises',
                      '%s/%s' % (exc_tag(exc), tag),
                      'detect_df raised %r on the frame its constraints '
                      'were discovered from (%s); options %r\n%s'
                      % (exc, frame_class(spec), op.get('opts'),
                         df.to_string()[:1200]))
            return
        nf = 0 if v.detection is None else int(v.detection.n_failing_records)
        if v.failures != 0 or nf != 0:
            bad = [(f, k) for f, m in verdict_map(v) for k, s in m
                   if s is False]
            kinds = sorted({'%s:%s' % (col_kind(spec, f), k)
                            for f, k in bad})
            violation(ctx, op, 'closure-detect',
                      '%s/%s' % ((kinds or ['records'])[0], tag),
                      'detection on the discovery frame reports %d failing '
                      'constraints / %d failing records: %r\n%s'
                      % (v.failures, nf, bad, df.to_string()[:1200]))
        elif exists_after:
            violation(ctx, op, 'closure-detect-output-file',
                      'pre-%s/%s' % (pre_state, fmt_of(outpath)),
                      'detection on the discovery frame found nothing, yet '
                      'a detection output file (failing records) is at the '
                      'output path afterwards; before the call the path was '
                      '%s' % pre_state)
        return
    if ctx.prop == 'C06':
        check_c06(ctx, op, rec, spec, df, before_df, kw, v, det, outcome,
                  exc if outcome == 'exc' else None, outpath, pre_state,
                  pre_sig, exists_after)


def op_stale_output(ctx, op):
    if 'path_cwd' in op:
        from machines import constraints_cli
        return constraints_cli.op_stale_cwd(ctx, op)
    p = ctx.W.path('data', op['path'])
    with io.open(p, 'w', encoding='utf-8') as f:
        f.write(op['junk'])
    if not hasattr(ctx, 'path_state'):
        ctx.path_state = {}
    ctx.path_state[p] = 'stale'
    ctx.stats['faults']['stale_output_planted'] += 1
    ctx.events.append({'i': op['i'], 'op': 'stale_output'})
    ctx.nontrivial = True


# ---- C06 oracle ----------------------------------------------------------

SUFFIX = {'type': 'type', 'min': 'min', 'min_length': 'min_length',
          'max': 'max', 'max_length': 'max_length', 'sign': 'sign',
          'max_nulls': 'nonnull', 'no_duplicates': 'nodups',
          'allowed_values': 'values', 'rex': 'rex'}


def check_c06(ctx, op, rec, spec, df, before_df, kw, v, det, outcome, exc,
              outpath, pre_state, pre_sig, exists_after):
    import pandas as pd
    from tdda.constraints import verify_df
    in_place = bool(kw.get('in_place'))
    opt_tag = ''.join(sorted(k[0] for k in kw if k not in ('outpath',)))
    ctx.states.add('%s|%s|%s|%s' % (gf.frame_signature(spec),
                                    sorted(kinds_in(cs_dict(rec))),
                                    sorted(kw), pre_state))
    if outcome == 'exc':
        # does plain verification also fail the same way?  (then it is a
        # malformed-constraint matter, not a detection matter)
        try:
            verify_df(before_df.copy(deep=True), cs_dict(rec),
                      **{k: kw[k] for k in ('epsilon', 'type_checking',
                                            'repair') if k in kw})
            verify_ok = True
        except WatchdogTimeout:
            raise
        except Exception:
            verify_ok = False
        if verify_ok:
            slug = re.sub(r'cannot insert .+, already exists',
                          'cannot insert COL already exists', str(exc))
            slug = re.sub(r'[^A-Za-z]+', '-', slug)[:50].strip('-')
            violation(ctx, op, 'detect-raises',
                      '%s/%s' % (exc_tag(exc), slug),
                      'detect_df raised %r where verify_df does not; '
                      'options %r\nconstraints %s\nframe:\n%s'
                      % (exc, op.get('opts'),
                         json.dumps(cs_dict(rec), default=str,
                                    ensure_ascii=False)[:1200],
                         before_df.to_string()[:1200]))
        else:
            ctx.stats['abstain']['verify_also_raises'] += 1
        if exists_after and pre_state in ('absent', 'none'):
            ctx.stats['probes']['file_left_after_exception'] += 1
        return
    ctx.stats['checks']['detections'] += 1
    # (a) verdicts identical to plain verification on an identical copy
    try:
        v2 = verify_df(before_df.copy(deep=True), cs_dict(rec),
                       **{k: kw[k] for k in ('epsilon', 'type_checking',
                                             'repair') if k in kw})
        m2 = verdict_map(v2)
    except WatchdogTimeout:
        raise
    except Exception as e:
        m2 = 'exc'
    m1 = verdict_map(v)
    if m2 != 'exc' and m1 != m2:
        d = [(a, b) for a, b in zip(m1, m2) if a != b]
        violation(ctx, op, 'verdicts-agree-with-verify', 'map',
                  'detect and verify disagree: %r' % (d[:4],))
    failing = [(f, k) for f, m in m1 for k, s in m if s is False]
    if failing:
        ctx.nontrivial = True
    # (f) output file exists afterwards only if some constraint failed
    if outpath:
        if exists_after and not failing:
            violation(ctx, op, 'output-file-only-if-failed',
                      'pre-%s/%s' % (pre_state, fmt_of(outpath)),
                      'no constraint failed but %s exists after the op '
                      '(before: %s)' % (ctx.W.rel(outpath), pre_state))
        if exists_after and failing and pre_sig is not None:
            now = fsaudit.snapshot([outpath]).get(outpath)
            if now == pre_sig:
                violation(ctx, op, 'output-file-is-this-ops',
                          'pre-%s' % pre_state,
                          'output file untouched by an op that detected '
                          'failures')
        if pre_state == 'stale':
            ctx.stats['probes']['stale_%s' % (
                'overwritten' if exists_after else 'removed')] += 1
    # (e) caller's frame unchanged unless in_place (then only new columns)
    if in_place:
        old = list(before_df.columns)
        if list(df.columns)[:len(old)] != old or not deep_equal(
                df[old], before_df):
            violation(ctx, op, 'in-place-only-adds-columns',
                      'repair' if kw.get('repair', True) else 'norepair',
                      'in_place detection changed existing columns: %r -> %r'
                      % (list(before_df.dtypes.astype(str)),
                         list(df[old].dtypes.astype(str))
                         if list(df.columns)[:len(old)] == old
                         else list(df.columns)))
    elif not deep_equal(df, before_df):
        changed = [c for c in before_df.columns
                   if c not in df.columns
                   or str(df[c].dtype) != str(before_df[c].dtype)
                   or not df[c].equals(before_df[c])]
        violation(ctx, op, 'input-frame-unchanged',
                  '%s/%s' % ('repair' if kw.get('repair', True) else
                             'norepair', '+'.join(sorted(
                                 {col_kind(spec, c) for c in changed}))),
                  'detect_df without in_place changed the caller\'s frame: '
                  'columns %r: %r -> %r' % (
                      changed,
                      [str(before_df[c].dtype) for c in changed],
                      [str(df[c].dtype) if c in df.columns else None
                       for c in changed]))
    if v.detection is None:
        if failing and len(before_df) > 0 and any(
                f in before_df.columns for f, _ in failing):
            ctx.stats['probes']['failed_but_no_detection_object'] += 1
        return
    n_pass = int(v.detection.n_passing_records)
    n_fail = int(v.detection.n_failing_records)
    # (c) partition
    if n_pass + n_fail != len(before_df):
        violation(ctx, op, 'counts-partition-rows', 'n',
                  'n_passing %d + n_failing %d != %d rows'
                  % (n_pass, n_fail, len(before_df)))
    if det is None:
        return
    # rows present
    nfname = 'n_failures'
    if nfname not in det.columns:
        violation(ctx, op, 'n_failures-column', 'missing',
                  'no %s column in detection output %r'
                  % (nfname, list(det.columns)))
        return
    nfail_col = det[nfname]
    if kw.get('write_all'):
        if len(det) != len(before_df):
            violation(ctx, op, 'write-all-holds-all-records', 'n',
                      '%d of %d records in output' % (len(det),
                                                      len(before_df)))
    else:
        if len(det) != n_fail or (len(det) and int((nfail_col > 0).sum())
                                  != len(det)):
            violation(ctx, op, 'output-holds-exactly-failing-records',
                      'n', 'output has %d records, %d with failures; '
                      'n_failing_records=%d' % (len(det),
                                                int((nfail_col > 0).sum()),
                                                n_fail))
    if int((nfail_col > 0).sum()) != n_fail:
        violation(ctx, op, 'n-failing-matches-output', 'n',
                  'n_failing_records=%d but %d output rows have n_failures>0'
                  % (n_fail, int((nfail_col > 0).sum())))
    # (b) + (c): per-constraint flags vs M-rec
    if kw.get('per_constraint') and not in_place:
        polluted = any(str(c).endswith('_ok') or str(c).startswith(
            'n_failures') or str(c) == 'Index' for c in before_df.columns)
        if before_df.index.has_duplicates:
            # rows cannot be identified by label
            ctx.stats['abstain']['repeated_index_labels'] += 1
        elif polluted:
            # columns named like detection outputs (left by an earlier
            # in-place op, or a field called n_failures): naming ambiguous
            ctx.stats['abstain']['frame_has_detection_like_columns'] += 1
        elif not deep_equal(df, before_df):
            # repair retyped a column: the per-record meaning then refers to
            # the repaired values (reported separately under (e))
            ctx.stats['abstain']['frame_retyped_by_repair'] += 1
        else:
            check_flags(ctx, op, rec, spec, before_df, kw, det, failing,
                        opt_tag, outpath)
    # (d) file agrees with frame
    if outpath and exists_after:
        check_file(ctx, op, outpath, det, kw, opt_tag)


def count_column(before_df):
    """Name of the failure-count column: n_failures, made unique against
    the input's own columns the way in-place columns are."""
    name, i = 'n_failures', 1
    while name in before_df.columns:
        i += 1
        name = 'n_failures_%d' % i
    return name


def fmt_of(outpath):
    if not outpath:
        return 'nofile'
    return os.path.splitext(outpath)[1][1:]


def kinds_in(d):
    return {k for f in d.get('fields', {}).values() for k in f}


def constraint_params(d, field, kind):
    raw = d['fields'][field][kind]
    if isinstance(raw, dict):
        return raw.get('value'), raw.get('precision')
    return raw, None


def check_flags(ctx, op, rec, spec, before_df, kw, det, failing, opt_tag,
                outpath=None):
    import pandas as pd
    d = cs_dict(rec)
    eps = kw.get('epsilon') or 0.0
    pos = {lab: i for i, lab in enumerate(before_df.index)}
    labels = list(det.index)
    if outpath:
        # the writer may reset the returned frame's index in place (typed
        # output): labels are then row numbers of the *output*
        if len(det) == len(before_df):
            labels = list(before_df.index)
        elif list(det.index) != [l for l in before_df.index
                                 if l in set(det.index)] or \
                isinstance(det.index, pd.RangeIndex):
            ctx.stats['abstain']['detected_frame_index_reset'] += 1
            return
    any_abstain = False
    total_false = collections.Counter()
    expected_false = collections.Counter()
    for field, kind in failing:
        if field not in before_df.columns or kind not in SUFFIX:
            continue
        colname = '%s_%s_ok' % (field, SUFFIX[kind])
        if colname not in det.columns:
            # name clash with an original field of the same name
            ctx.stats['abstain']['flag_column_not_found'] += 1
            any_abstain = True
            continue
        if kind not in d['fields'].get(field, {}):
            violation(ctx, op, 'failing-constraint-is-in-the-set',
                      op.get('via', 'dict'), 'detection reports %s:%s as failed, but the '
                      'constraint set given has no such constraint (fields '
                      '%r)' % (field, kind, sorted(d['fields'])))
            return
        value, precision = constraint_params(d, field, kind)
        ser = before_df[field]
        ctype = d['fields'][field].get('type')
        if kw.get('repair', True) and ctype in ('string', 'bool') and \
                gcs.kind_to_type(col_kind(spec, field)) != ctype:
            # repair works on a retyped copy of this column: the per-record
            # meaning then refers to the repaired values
            ctx.stats['abstain']['column_retyped_by_repair'] += 1
            any_abstain = True
            continue
        is_date = 'date' in str(ser.dtype)
        if kind in ('min', 'max') and isinstance(value, str):
            from tdda.constraints.base import get_date
            value2 = get_date(value) if d['fields'][field].get(
                'type') == 'date' else value
            if value2 is value:
                ctx.stats['abstain']['string_bound'] += 1
                any_abstain = True
                continue
            value = value2
        viol = mrec.violators(ser, kind, value, precision, eps,
                              column_is_date=is_date)
        if viol == mrec.ABSTAIN:
            ctx.stats['abstain']['mrec_' + kind] += 1
            any_abstain = True
            continue
        flagged = set()
        col = det[colname]
        if any(lab not in pos for lab in labels):
            # the returned frame lost the caller's index labels (the writer
            # resets the index in place for typed output files)
            ctx.stats['abstain']['detected_frame_index_reset'] += 1
            any_abstain = True
            continue
        for lab, val in zip(labels, col.tolist()):
            if val is False or (not mrec.isnull(val) and val == 0
                                and not isinstance(val, str)):
                flagged.add(pos[lab])
        ctx.stats['checks']['flag_columns_vs_model'] += 1
        if flagged != viol:
            violation(ctx, op, 'flags-equal-violators',
                      '%s:%s' % (col_kind(spec, field), kind),
                      'constraint %s %s=%r precision=%r eps=%r: flagged '
                      'false at rows %r, violating records are %r\ncolumn: '
                      '%r' % (field, kind, value, precision, eps,
                              sorted(flagged), sorted(viol),
                              ser.tolist()[:20]))
        for i in viol:
            expected_false[i] += 1
    # n_failures == number of false flags in the row
    nfname = 'n_failures'
    flagcols = [c for c in det.columns if c.endswith('_ok')
                and c not in before_df.columns]
    for lab, row in det.iterrows():
        nf = int(row[nfname])
        cnt = 0
        for c in flagcols:
            val = row[c]
            if val is False or (not mrec.isnull(val) and not isinstance(
                    val, str) and val == 0):
                cnt += 1
        if cnt != nf:
            violation(ctx, op, 'n_failures-equals-false-flags', 'row',
                      'row %r: n_failures=%d but %d false flags (%r)'
                      % (lab, nf, cnt, {c: row[c] for c in flagcols}))
            break
    ctx.stats['checks']['rows_flag_counted'] += len(det)


def check_file(ctx, op, outpath, det, kw, opt_tag):
    import pandas as pd
    try:
        if outpath.endswith('.parquet'):
            f = pd.read_parquet(outpath)
        else:
            f = pd.read_csv(outpath)
    except WatchdogTimeout:
        raise
    except Exception as e:
        if len(det) == 0:
            return
        violation(ctx, op, 'output-file-readable', fmt_of(outpath),
                  'cannot read detection output back: %r' % (e,))
        return
    ctx.stats['checks']['output_files_read_back'] += 1
    if len(f) != len(det):
        violation(ctx, op, 'file-agrees-with-frame',
                  'rows/%s' % fmt_of(outpath),
                  'file has %d records, returned frame %d'
                  % (len(f), len(det)))
        return
    nfname = [c for c in det.columns if c.startswith('n_failures')][-1]
    if nfname in f.columns and len(f):
        if list(f[nfname].astype(int)) != list(
                det[nfname].astype(int)):
            violation(ctx, op, 'file-agrees-with-frame',
                      'n_failures/%s' % fmt_of(outpath),
                      'n_failures differ between file and frame')


# ---- C09 -----------------------------------------------------------------

def content_tag(d):
    tags = set()
    for fname, f in d.get('fields', {}).items():
        if any(ord(c) > 127 for c in fname):
            tags.add('unicode-name')
        if f.get('type') == 'date':
            tags.add('date')
        for k, v in f.items():
            if isinstance(v, dict) and 'precision' in v:
                tags.add('precision')
            if v is None:
                tags.add('null-valued')
            if k == 'rex':
                tags.add('rex')
    return '+'.join(sorted(tags)) or 'plain'


def op_roundtrip(ctx, op):
    from tdda.constraints.base import DatasetConstraints
    rec = ctx.cs.get(op['cs'])
    if rec is None or (rec.get('obj') is None and 'dict' not in rec):
        ctx.events.append({'i': op['i'], 'op': 'roundtrip',
                           'outcome': 'no-cs'})
        return
    path = ctx.W.path('data', op['path'])
    tf = path if op.get('tddafile') else None
    d0 = cs_dict(rec)
    ctag = content_tag(d0)
    existed = os.path.exists(path)
    if existed:
        ctx.stats['probes']['overwrites_existing_file'] += 1
        if os.path.getsize(path) > len(cs_text(rec, tddafile=tf).encode(
                'utf-8')):
            ctx.stats['faults']['shorter_content_over_longer_file'] += 1
    texts = []
    leaked = []
    loaded = None
    try:
        T = cs_text(rec, tddafile=tf)
        for k in range(op['cycles']):
            with io.open(path, 'w', encoding='utf-8') as f:
                f.write(T)
            if op.get('default_encoding'):
                # the process's preferred encoding is not UTF-8 (Windows
                # code page, a latin-1 locale)
                from sim.defaultenc import DefaultEncoding
                with DefaultEncoding(op['default_encoding'],
                                     ctx.stats['faults']):
                    loaded = DatasetConstraints(loadpath=path)
            else:
                loaded = DatasetConstraints(loadpath=path)
            dist = op.get('disturb')
            if dist:
                # between loading the file and using what was loaded, the
                # file goes away or is reused for something else
                if dist == 'delete':
                    os.remove(path)
                else:
                    with io.open(path, 'w', encoding='utf-8') as f:
                        f.write('{"fields": {"zz": {"type": "int"}}}\n')
                ctx.stats['faults']['file_%s_between_load_and_use'
                                    % dist.replace('-', '_')] += 1
            if op.get('copy_saved_first'):
                # the user first saves a copy of what was loaded under
                # another name (to_json(tddafile=...) + their own write)
                loaded.to_json(tddafile=ctx.W.path('data',
                                                   'copy-elsewhere.tdda'))
                ctx.stats['probes']['copy_saved_under_another_name'] += 1
            T2 = loaded.to_json(tddafile=tf)
            if op.get('copy_saved_first') and 'copy-elsewhere' in T2:
                leaked.append(T2)
            if dist:
                with io.open(path, 'w', encoding='utf-8') as f:
                    f.write(T2)
            texts.append((T, T2))
            T = T2
        outcome = 'ok'
    except WatchdogTimeout:
        raise
    except Exception as e:
        outcome, exc = 'exc', e
    rec['loaded'] = loaded
    rec['path'] = path
    ctx.events.append({'i': op['i'], 'op': 'roundtrip', 'outcome': outcome,
                       'texts': [ctx.W.scrub(scrub_meta(b))
                                 for a, b in texts][:1]})
    ctx.shape.append('O%d%s' % (op['cycles'], outcome[0]))
    if op['cycles'] > 1 or ctag != 'plain':
        ctx.nontrivial = True
    if ctx.prop != 'C09':
        return
    ctx.states.add('%s|%d' % (sorted(kinds_in(d0)), op['cycles']))
    ctx.stats['checks']['roundtrips'] += 1
    if outcome == 'exc':
        violation(ctx, op, 'load-raises', '%s/%s' % (exc_tag(exc), ctag),
                  'write/load cycle raised %r for\n%s'
                  % (exc, scrub_meta(cs_text(rec))[:1500]))
        return
    if leaked:
        violation(ctx, op, 'same-text', 'name-of-an-earlier-copy-leaks',
                  'after to_json(tddafile=<copy>) the next serialisation of '
                  'the same loaded set names the copy:\n%s'
                  % scrub_meta(leaked[0])[:800])
    first_written = texts[0][0]
    # text properties (of what tdda serialises: every T2, and T1 when it
    # came from a DatasetConstraints object)
    tdda_texts = [b for a, b in texts]
    if rec.get('obj') is not None:
        tdda_texts.append(first_written)
    for t in tdda_texts:
        try:
            json.loads(t)
            t.encode('utf-8')
        except Exception as e:
            violation(ctx, op, 'valid-utf8-json', ctag,
                      'serialised text is not valid UTF-8 JSON: %r' % (e,))
            break
        if any(l != l.rstrip() for l in t.split('\n')) or \
                not t.endswith('\n') or t.endswith('\n\n'):
            violation(ctx, op, 'no-trailing-whitespace', ctag,
                      'serialised text has trailing whitespace or bad final '
                      'newline: %r' % t[-80:])
            break
    # identity
    for k, (a, b) in enumerate(texts):
        if rec.get('obj') is None and k == 0:
            # hand-written text vs its first re-serialisation: compare the
            # parsed fields only for *content* (formatting is the user's)
            continue
        if op.get('tddafile'):
            same = a == b
        else:
            same = fields_text(a) == fields_text(b)
        if not same:
            a2, b2 = (a, b) if op.get('tddafile') else (fields_text(a),
                                                        fields_text(b))
            strip = lambda t: re.sub(r'("\d{4}-\d{2}-\d{2}) 00:00:00"',
                                     r'\1"', t)
            if strip(b2) == strip(a2):
                # a bound discovered from a column of datetime.date objects
                # is written as a date and read back as a datetime
                ctag = 'date-only-gains-midnight'
            violation(ctx, op, 'same-text', '%s/cycle%d' % (ctag, min(k, 2)),
                      'text changed across a write/load cycle:\n--- written\n'
                      '%s\n--- re-serialised\n%s' % (scrub_meta(a)[:1500],
                                                     scrub_meta(b)[:1500]))
            break
    # a hand-written set: loading and re-serialising must keep every
    # documented constraint's value (content, not formatting)
    if rec.get('obj') is None:
        want = normalise_fields(d0)
        got = normalise_fields(json.loads(texts[0][1]))
        if want != got:
            violation(ctx, op, 'content-preserved', ctag,
                      'hand-written constraints changed on load+serialise:\n'
                      'want %s\ngot  %s' % (json.dumps(want, sort_keys=True,
                                                       ensure_ascii=False),
                                            json.dumps(got, sort_keys=True,
                                                       ensure_ascii=False)))
    # creation metadata must not be re-stamped by load
    m0 = d0.get('creation_metadata') or {}
    if m0.get('local_time'):
        m1 = json.loads(texts[-1][1]).get('creation_metadata') or {}
        for k in ('local_time', 'utc_time', 'host', 'user', 'creator'):
            if k in m0 and m1.get(k) != m0[k]:
                violation(ctx, op, 'metadata-not-restamped', k,
                          '%s was %r in the file, %r after %d cycles'
                          % (k, m0[k], m1.get(k), op['cycles']))
                break


def fields_text(t):
    return json.dumps(json.loads(t, object_pairs_hook=collections.OrderedDict
                                 ).get('fields'), ensure_ascii=False)


KNOWN_KINDS = set(SUFFIX)


def normalise_fields(d):
    """Documented constraints only, null-valued ones dropped (they are
    'always satisfied'; whether a writer keeps them is not specified),
    date strings normalised."""
    out = {}
    for fname, f in (d.get('fields') or {}).items():
        g = {}
        is_date = f.get('type') == 'date'
        for k, v in f.items():
            if k not in KNOWN_KINDS:
                continue
            val, prec = (v.get('value'), v.get('precision')) \
                if isinstance(v, dict) else (v, None)
            if val is None:
                continue
            if is_date and k in ('min', 'max') and isinstance(val, str):
                val = norm_date(val)
            g[k] = [val, prec] if prec else val
        if g:
            out[fname] = g
    return out


def norm_date(s):
    m = re.match(r'^(\d{4})[-/](\d{1,2})[-/](\d{1,2})(?:[ T](\d{1,2}):(\d{2})'
                 r':(\d{2})(?:\.(\d+))?)?$', s)
    if not m:
        return s
    y, mo, d, h, mi, se, fr = m.groups()
    out = '%04d-%02d-%02d %02d:%02d:%02d' % (int(y), int(mo), int(d),
                                             int(h or 0), int(mi or 0),
                                             int(se or 0))
    if fr and int(fr):
        out += '.' + ('%06d' % int(fr.ljust(6, '0')[:6])).rstrip('0')
    return out


def op_verdicts(ctx, op):
    """Same verdicts via dict, via path, via re-serialised loaded object."""
    from tdda.constraints import verify_df
    rec = ctx.cs.get(op['cs'])
    if rec is None or rec.get('loaded') is None:
        ctx.events.append({'i': op['i'], 'op': 'verdicts',
                           'outcome': 'no-cs'})
        return
    df = ctx.frames[op['frame']]
    kw = {'repair': op.get('repair', True)}
    if op.get('type_checking'):
        kw['type_checking'] = op['type_checking']
    if op.get('epsilon') is not None:
        kw['epsilon'] = op['epsilon']
    results = []
    if op.get('reuse_dict'):
        # the caller keeps one dictionary object and passes it every time
        if 'held' not in rec:
            rec['held'] = cs_dict(rec)
        held = rec['held']
        srcs = (('dict', lambda: held),
                ('path', lambda: rec['path']),
                ('reloaded', lambda: rec['loaded'].to_dict()),
                ('dict-again', lambda: held))
        ctx.stats['probes']['same_dict_object_passed_again'] += 1
    else:
        srcs = (('dict', lambda: cs_dict(rec)),
                ('path', lambda: rec['path']),
                ('reloaded', lambda: rec['loaded'].to_dict()))
    def dict_text(d):
        from tdda.constraints.base import DatasetConstraints
        c = DatasetConstraints()
        c.initialize_from_dict(d)
        return fields_text(c.to_json())
    held_text0 = None
    if op.get('reuse_dict'):
        try:
            held_text0 = dict_text(copy.deepcopy(held))
        except Exception:
            held_text0 = None
    pipe_fds = []
    if op.get('via_pipe') and rec.get('path') and os.path.exists(rec['path']):
        # the constraints arrive through a pipe (shell process substitution
        # gives /dev/fd/N): a readable path that is not a regular file
        def from_pipe():
            with io.open(rec['path'], 'rb') as f:
                data = f.read()
            if len(data) > 60000:
                return rec['path']
            rfd, wfd = os.pipe()
            os.write(wfd, data)
            os.close(wfd)
            pipe_fds.append(rfd)
            ctx.stats['probes']['constraints_read_from_a_pipe'] += 1
            return '/dev/fd/%d' % rfd
        srcs = tuple(srcs) + (('pipe', from_pipe),)
    for name, mk in srcs:
        try:
            v = verify_df(df.copy(deep=True), mk(), **kw)
            results.append((name, verdict_map(v), v.passes, v.failures))
        except WatchdogTimeout:
            raise
        except Exception as e:
            results.append((name, 'exc:' + exc_tag(e), None, None))
    for fd in pipe_fds:
        try:
            os.close(fd)
        except OSError:
            pass
    ctx.events.append({'i': op['i'], 'op': 'verdicts',
                       'results': results})
    ctx.shape.append('W%s' % ''.join('x' if isinstance(r[1], str) else '.'
                                     for r in results))
    if ctx.prop != 'C09':
        return
    ctx.stats['checks']['verdict_triples'] += 1
    if held_text0 is not None:
        # the caller's dictionary still says what it said before it was
        # used for verification
        try:
            t1 = dict_text(held)
        except WatchdogTimeout:
            raise
        except Exception as e:
            t1 = 'exc:' + exc_tag(e)
        ctx.stats['checks']['dict_text_after_verification'] += 1
        if t1 != held_text0:
            violation(ctx, op, 'same-text',
                      'dict-after-verification/%s' % content_tag(
                          cs_dict(rec)),
                      'the dictionary passed to verify_df serialises '
                      'differently afterwards:\nbefore %s\nafter  %s'
                      % (held_text0[:1200], t1[:1200]))
            return
    base = results[0]
    for other in results[1:]:
        if other[1:] != base[1:]:
            violation(ctx, op, 'same-verdicts',
                      '%s-vs-%s/%s' % (base[0], other[0],
                                       content_tag(cs_dict(rec))),
                      'verification differs between constraint sources:\n'
                      '%s: %r\n%s: %r' % (base[0], base[1:], other[0],
                                          other[1:]))
            break


def op_noise(ctx, op):
    """Unknown kinds, '#' keys and null-valued constraints change no other
    verdict and do not raise."""
    from tdda.constraints import verify_df
    from sim.rng import Rng
    rec = ctx.cs.get(op['cs'])
    if rec is None or (rec.get('obj') is None and 'dict' not in rec):
        return
    df = ctx.frames[op['frame']]
    d0 = cs_dict(rec)
    d1 = copy.deepcopy(d0)
    r = Rng(op['seed'])
    added = {}
    for fname, f in d1.get('fields', {}).items():
        if r.chance(0.7):
            added[fname] = gcs.add_noise(r, f)
    import warnings
    strict = bool(op.get('warnings_as_errors'))
    with warnings.catch_warnings():
        if strict:
            # the process runs with warnings escalated to errors
            # (python -W error, pytest filterwarnings=error)
            warnings.simplefilter('error')
            ctx.stats['faults']['warnings_escalated_to_errors'] += 1
        try:
            v0 = verify_df(df.copy(deep=True), d0)
            m0 = verdict_map(v0)
        except WatchdogTimeout:
            raise
        except Exception:
            ctx.stats['abstain']['baseline_verify_raises'] += 1
            return
        try:
            v1 = verify_df(df.copy(deep=True), d1)
            m1 = verdict_map(v1)
            outcome = 'ok'
        except WatchdogTimeout:
            raise
        except Exception as e:
            outcome, exc = 'exc', e
    ctx.events.append({'i': op['i'], 'op': 'noise', 'outcome': outcome})
    ctx.shape.append('N' + outcome[0])
    ctx.nontrivial = True
    if ctx.prop != 'C09':
        return
    ctx.stats['checks']['noise_comparisons'] += 1
    kinds_added = sorted({('#' if k.startswith('#') else
                           'null' if k in KNOWN_KINDS else 'unknown')
                          for ks in added.values() for k in ks})
    if outcome == 'exc':
        violation(ctx, op, 'noise-raises',
                  '%s/%s%s' % (exc_tag(exc), '+'.join(kinds_added),
                               '/warnings-as-errors' if strict else ''),
                  'adding ignorable entries %r made verification raise %r'
                  % (added, exc))
        return
    # compare verdicts of the original constraints only
    base = {(f, k): s for f, m in m0 for k, s in m}
    new = {(f, k): s for f, m in m1 for k, s in m}
    for key, s in base.items():
        f, k = key
        if k in added.get(f, ()):
            continue            # this kind was overwritten?  (never: only
                                # absent kinds are added)
        if new.get(key) != s:
            violation(ctx, op, 'noise-changes-verdict',
                      '+'.join(kinds_added),
                      'verdict of %r changed from %r to %r after adding %r'
                      % (key, s, new.get(key), added))
            return
    for f, ks in added.items():
        if f not in df.columns:
            continue    # constraints on a field the data lacks are failed
        for k in ks:
            if k in KNOWN_KINDS and new.get((f, k)) is False:
                violation(ctx, op, 'null-valued-satisfied', k,
                          'null-valued constraint %s on %s reported failed'
                          % (k, f))
                return


# ---- C17 (CLI) is defined in machines/constraints_cli.py -----------------

def gen_c17(r, tier):
    from machines import constraints_cli
    return constraints_cli.gen_c17(r, tier)


def op_cli(ctx, op):
    from machines import constraints_cli
    return constraints_cli.op_cli(ctx, op)


def op_write_table(ctx, op):
    from machines import constraints_cli
    return constraints_cli.op_write_table(ctx, op)


def op_write_cs(ctx, op):
    from machines import constraints_cli
    return constraints_cli.op_write_cs(ctx, op)


OPS = {'discover': op_discover, 'handwritten': op_handwritten,
       'verify': op_verify, 'detect': op_detect,
       'stale_output': op_stale_output, 'roundtrip': op_roundtrip,
       'verdicts': op_verdicts, 'noise': op_noise, 'cli': op_cli,
       'write_table': op_write_table, 'write_cs': op_write_cs}


# --------------------------------------------------------------------------
# typed shrinkers
# --------------------------------------------------------------------------

def shrink(plan):
    frames = plan['config']['frames']
    for fi, spec in enumerate(frames):
        # drop columns
        if len(spec['columns']) > 1:
            for ci in range(len(spec['columns'])):
                cand = copy.deepcopy(plan)
                del cand['config']['frames'][fi]['columns'][ci]
                yield cand
        # drop rows
        n = spec['nrows']
        cuts = []
        if n > 3:
            cuts += [(0, n // 2), (n // 2, n)]
        cuts += [(i, i + 1) for i in range(n)]
        for a, b in cuts:
            cand = copy.deepcopy(plan)
            s = cand['config']['frames'][fi]
            for c in s['columns']:
                del c['values'][a:b]
            s['nrows'] = n - (b - a)
            yield cand
        if spec.get('index'):
            cand = copy.deepcopy(plan)
            cand['config']['frames'][fi]['index'] = None
            yield cand
    for idx, op in enumerate(plan['ops']):
        if op.get('opts'):
            for k in list(op['opts']):
                cand = copy.deepcopy(plan)
                del cand['ops'][idx]['opts'][k]
                yield cand
        if op.get('via') in ('file', 'cycled'):
            cand = copy.deepcopy(plan)
            cand['ops'][idx]['via'] = 'dict'
            yield cand
        for key in ('cs_inline', 'cs'):
            d = op.get(key)
            if isinstance(d, dict) and 'fields' in d:
                for fname in list(d['fields']):
                    if len(d['fields']) > 1:
                        cand = copy.deepcopy(plan)
                        del cand['ops'][idx][key]['fields'][fname]
                        yield cand
                    for k in list(d['fields'][fname]):
                        if len(d['fields'][fname]) > 1:
                            cand = copy.deepcopy(plan)
                            del cand['ops'][idx][key]['fields'][fname][k]
                            yield cand
        if op.get('cycles', 1) > 1:
            cand = copy.deepcopy(plan)
            cand['ops'][idx]['cycles'] = 1
            yield cand
