"""
A per-run world: a throw-away directory tree in RAM, the process working
directory, environment variables and tempfile defaults, all restored on exit.
"""

import os
import shutil
import sys
import tempfile

_BASE = None
_COUNTER = [0]


def base_dir():
    global _BASE
    if _BASE is None:
        root = '/dev/shm' if os.path.isdir('/dev/shm') and os.access(
            '/dev/shm', os.W_OK) else tempfile.gettempdir()
        _BASE = os.path.join(root, 'tdda-verif.%07d' % os.getpid())
        os.makedirs(_BASE, exist_ok=True)
    return _BASE


def cleanup_base():
    global _BASE
    if _BASE and os.path.isdir(_BASE):
        shutil.rmtree(_BASE, ignore_errors=True)
    _BASE = None


SUBDIRS = ('cwd', 'home', 'tmp', 'fail', 'systmp', 'ref', 'data', 'canary')


class World(object):
    """
    with World() as W:  W.root, W.path('cwd', 'x.txt') ...

    The directory name is a fixed string per process slot (not the run
    number), so that absolute paths appearing in observations are identical
    whichever worker/run order executes the plan: <base>/w
    """

    def __init__(self, chdir=True, env=None):
        self.chdir = chdir
        self.extra_env = env or {}

    def __enter__(self):
        self.root = os.path.join(base_dir(), 'w')
        if os.path.exists(self.root):
            shutil.rmtree(self.root)
        for d in SUBDIRS:
            os.makedirs(os.path.join(self.root, d))
        self._saved_env = dict(os.environ)
        self._saved_cwd = os.getcwd()
        self._saved_tempdir = tempfile.tempdir
        os.environ['HOME'] = self.path('home')
        os.environ['TMPDIR'] = self.path('tmp')
        os.environ.pop('TDDA_FAIL_DIR', None)
        for k, v in self.extra_env.items():
            os.environ[k] = v
        tempfile.tempdir = self.path('systmp')
        if self.chdir:
            os.chdir(self.path('cwd'))
        return self

    def path(self, *parts):
        return os.path.join(self.root, *parts)

    def rel(self, p):
        """Path relative to the world root (for logs)."""
        if p.startswith(self.root):
            return 'W' + p[len(self.root):]
        return p

    def scrub(self, text):
        """Replace the world's absolute root in text (for stable logs)."""
        return text.replace(self.root, 'W') if isinstance(text, str) else text

    def __exit__(self, *exc):
        os.chdir(self._saved_cwd)
        os.environ.clear()
        os.environ.update(self._saved_env)
        tempfile.tempdir = self._saved_tempdir
        shutil.rmtree(self.root, ignore_errors=True)
        return False
