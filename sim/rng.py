"""
Seed derivation and the generator-side PRNG.

One integer (VERIF_SEED) decides everything: run r of property P gets
run_seed = derive(VERIF_SEED, P, r); plans are generated from a private
random.Random(run_seed) instance.  Nothing in the framework ever draws from
the *global* `random` module (that module is part of the system under test:
rexpy uses it), from a clock, from os.urandom or from id()/hash().
"""

import hashlib
import random

MASK = (1 << 64) - 1
DEFAULT_VERIF_SEED = 20260927


def splitmix64(x):
    x = (x + 0x9E3779B97F4A7C15) & MASK
    z = x
    z = ((z ^ (z >> 30)) * 0xBF58476D1CE4E5B9) & MASK
    z = ((z ^ (z >> 27)) * 0x94D049BB133111EB) & MASK
    return z ^ (z >> 31)


def derive(*parts):
    """Deterministic 64-bit value from ints/strings (no use of hash())."""
    acc = 0x243F6A8885A308D3
    for p in parts:
        if isinstance(p, int):
            v = p & MASK
        else:
            v = int.from_bytes(hashlib.sha256(str(p).encode('utf-8'))
                               .digest()[:8], 'big')
        acc = splitmix64(acc ^ v)
    return acc


class Rng(random.Random):
    """Private generator; a few helpers on top of random.Random."""

    def chance(self, p):
        return self.random() < p

    def pick(self, seq):
        return seq[self.randrange(len(seq))]

    def weighted(self, pairs):
        """pairs: [(weight, item), ...]"""
        total = sum(w for w, _ in pairs)
        x = self.random() * total
        for w, item in pairs:
            x -= w
            if x < 0:
                return item
        return pairs[-1][1]

    def subset(self, seq, p=0.5):
        return [x for x in seq if self.random() < p]

    def fork(self, *label):
        return Rng(derive(self.getrandbits(64), *label))


def hash_seeds(verif_seed):
    """The three PYTHONHASHSEED values used for worker pools."""
    return [derive(verif_seed, 'hashseed', i) % 4294967295 + 1
            for i in range(3)]
