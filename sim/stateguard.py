"""
Process-global state guard.

tdda keeps state at module and class level (rexpy.memo, ReferenceTest.
regenerate, ...), and a change to tdda can add more (a cache, a counter).
So that one run = one plan, whatever ran before it in the same worker, the
worker snapshots every mutable container and every scalar held at module or
class level in the tdda package once, right after importing it, and restores
them after every run.  State that matters to a property must therefore be
built up *inside* a plan (plans hold several ops by several clients), which
is also what makes a violation reproducible from its replay file in a fresh
interpreter.
"""

import inspect
import sys

SCALARS = (int, float, bool, str, bytes, type(None))
CONTAINERS = (dict, list, set)

_saved = None

MODULES = [
    'tdda', 'tdda.rexpy', 'tdda.rexpy.rexpy', 'tdda.rexpy.relib',
    'tdda.referencetest', 'tdda.referencetest.referencetest',
    'tdda.referencetest.referencetestcase',
    'tdda.referencetest.referencepytest', 'tdda.referencetest.checkfiles',
    'tdda.referencetest.checkpandas', 'tdda.referencetest.basecomparison',
    'tdda.referencetest.gentest', 'tdda.referencetest.diffrex',
    'tdda.referencetest.utils', 'tdda.constraints', 'tdda.constraints.base',
    'tdda.constraints.baseconstraints', 'tdda.constraints.pd.constraints',
    'tdda.constraints.pd.discover', 'tdda.constraints.pd.verify',
    'tdda.constraints.pd.detect', 'tdda.constraints.pd.extension',
    'tdda.constraints.console', 'tdda.constraints.flags',
    'tdda.constraints.extension', 'tdda.constraints.db.constraints',
    'tdda.constraints.db.drivers', 'tdda.constraints.db.extension',
    'tdda.serial.reader', 'tdda.serial.pandasio', 'tdda.serial.csvw',
    'tdda.utils',
]


def _copy(v):
    """Deep copy where possible (a table of dicts is restored down to its
    inner dicts), shallow otherwise."""
    import copy
    try:
        return copy.deepcopy(v)
    except Exception:
        return type(v)(v)


def preload():
    import importlib
    for m in MODULES:
        try:
            importlib.import_module(m)
        except Exception:
            pass


def _holders():
    for name, mod in list(sys.modules.items()):
        if mod is None or not (name == 'tdda' or name.startswith('tdda.')):
            continue
        yield mod
        for k, v in list(vars(mod).items()):
            if inspect.isclass(v) and getattr(v, '__module__', None) == name:
                yield v


def snapshot():
    global _saved, _holder_list, _nvars, _caches, _defaults
    _saved = []
    _holder_list = list(_holders())
    _nvars = {}
    _caches = []
    _defaults = []
    for h in _holder_list:
        items = list(vars(h).items())
        _nvars[id(h)] = len(items)
        for k, v in items:
            if k.startswith('__'):
                continue
            if isinstance(v, CONTAINERS):
                _saved.append((h, k, v, _copy(v)))
            elif isinstance(v, SCALARS):
                _saved.append((h, k, None, v))
            else:
                # functools caches live inside the function object
                for f in (v, getattr(v, '__func__', None)):
                    cc = getattr(f, 'cache_clear', None)
                    if cc is not None and callable(cc):
                        _caches.append(cc)
                    # ... and so do mutable default arguments
                    # (def f(x, seen=[]): state for the life of the process)
                    f = getattr(f, '__wrapped__', f)
                    if inspect.isfunction(f):
                        ds = list(f.__defaults__ or ()) + list(
                            (f.__kwdefaults__ or {}).values())
                        for d in ds:
                            if isinstance(d, CONTAINERS):
                                _defaults.append((d, _copy(d)))


_holder_list = []
_nvars = {}
_caches = []
_defaults = []


def restore():
    if _saved is None:
        return
    for h, k, obj, val in _saved:
        try:
            d = vars(h)
            if obj is not None:
                if d.get(k) is not obj:
                    setattr(h, k, obj)
                if obj != val:
                    fresh = _copy(val)
                    if isinstance(obj, list):
                        obj[:] = fresh
                    else:
                        obj.clear()
                        obj.update(fresh)
            else:
                cur = d.get(k, _MISSING)
                if cur is not val and cur != val:
                    setattr(h, k, val)
        except (AttributeError, TypeError):
            pass
    for cc in _caches:
        try:
            cc()
        except Exception:
            pass
    for obj, val in _defaults:
        if obj != val:
            fresh = _copy(val)
            if isinstance(obj, list):
                obj[:] = fresh
            else:
                obj.clear()
                obj.update(fresh)
    # state added at run time under new names (a cache created lazily)
    for h in _holder_list:
        d = vars(h)
        if len(d) == _nvars.get(id(h)):
            continue
        known = {k for hh, k, _, _ in _saved if hh is h}
        for k, v in list(d.items()):
            if k.startswith('__') or k in known:
                continue
            if isinstance(v, CONTAINERS) and v:
                try:
                    v.clear()
                except Exception:
                    pass
    # modules imported during the run
    for name in list(sys.modules):
        if (name == 'tdda' or name.startswith('tdda.')) and \
                sys.modules[name] is not None and \
                id(sys.modules[name]) not in _nvars:
            mod = sys.modules[name]
            _holder_list.append(mod)
            _nvars[id(mod)] = -1


_MISSING = object()
