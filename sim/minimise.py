"""
Plan minimisation: ddmin over the op list, fault dropping, then the machine's
typed argument shrinkers -- keeping *the same violation signature*.
Bounded by number of executions and wall time.
"""

import copy
import time

from sim import registry


class Budget(object):
    def __init__(self, runs, seconds):
        self.runs = runs
        self.deadline = time.monotonic() + seconds
        self.used = 0

    def ok(self):
        return self.used < self.runs and time.monotonic() < self.deadline


def has_signature(plan, signature, execute, budget):
    budget.used += 1
    try:
        res = execute(copy.deepcopy(plan))
    except Exception:
        return False
    return any(v['signature'] == signature for v in res['violations'])


def renumber(plan):
    for i, op in enumerate(plan.get('ops', [])):
        op['i'] = i
    return plan


def ddmin_ops(plan, signature, execute, budget):
    ops = plan.get('ops', [])
    n = 2
    while len(ops) >= 2 and budget.ok():
        chunk = max(1, len(ops) // n)
        reduced = False
        i = 0
        while i < len(ops) and budget.ok():
            cand_ops = ops[:i] + ops[i + chunk:]
            if not cand_ops:
                i += chunk
                continue
            cand = dict(plan, ops=copy.deepcopy(cand_ops))
            renumber(cand)
            if has_signature(cand, signature, execute, budget):
                ops = cand_ops
                plan = dict(plan, ops=copy.deepcopy(ops))
                renumber(plan)
                n = max(n - 1, 2)
                reduced = True
            else:
                i += chunk
        if not reduced:
            if chunk == 1:
                break
            n = min(n * 2, len(ops))
    return plan


def drop_faults(plan, signature, execute, budget):
    for idx in range(len(plan.get('ops', []))):
        op = plan['ops'][idx]
        for key in ('fault', 'read_fault', 'storage_fault', 'clock'):
            if key in op and budget.ok():
                cand = copy.deepcopy(plan)
                del cand['ops'][idx][key]
                if has_signature(cand, signature, execute, budget):
                    plan = cand
    return plan


def typed_shrink(plan, signature, execute, budget):
    m = registry.machine(plan['property'])
    shrink = getattr(m, 'shrink', None)
    if shrink is None:
        return plan
    progress = True
    while progress and budget.ok():
        progress = False
        for cand in shrink(copy.deepcopy(plan)):
            if not budget.ok():
                break
            if has_signature(cand, signature, execute, budget):
                plan = cand
                progress = True
                break
    return plan


def minimise(plan, signature, execute, budget_runs=400, budget_s=60):
    budget = Budget(budget_runs, budget_s)
    if not has_signature(plan, signature, execute, budget):
        return plan, budget.used      # caller will detect non-reproduction
    plan = ddmin_ops(plan, signature, execute, budget)
    plan = drop_faults(plan, signature, execute, budget)
    plan = typed_shrink(plan, signature, execute, budget)
    plan = ddmin_ops(plan, signature, execute, budget)
    return plan, budget.used
