"""Property -> machine module."""

import importlib

MACHINE_OF = {
    'C03': 'machines.rex', 'C13': 'machines.rex', 'C14': 'machines.rex',
    'C18': 'machines.rex',
    'C04': 'machines.reftest', 'C10': 'machines.reftest',
    'C15': 'machines.reftest',
    'C11': 'machines.gentest', 'C12': 'machines.gentest',
    'C01': 'machines.constraints', 'C06': 'machines.constraints',
    'C09': 'machines.constraints', 'C17': 'machines.constraints',
    'C08': 'machines.db',
}

NOT_APPLICABLE = ('C02', 'C05', 'C07', 'C16', 'C19')


def machine(prop):
    return importlib.import_module(MACHINE_OF[prop])
