"""
Environment seam: the process's default text encoding.

open() without an encoding argument uses the locale's preferred encoding
(cp1252 on many Windows machines, ISO-8859-1 in some Unix locales); code that
relies on it behaves differently there.  This context manager makes every
text-mode open()/io.open() *without an explicit encoding* behave as it would
under such a default, for the duration of a call into tdda.  Opens that name
an encoding, and binary opens, are untouched (encoding='locale', which is what
pathlib's read_text/write_text pass on when given none, *is* the default).
"""

import builtins
import io


class DefaultEncoding(object):
    def __init__(self, encoding, counter=None):
        self.encoding = encoding
        self.counter = counter
        self.used = 0

    def __enter__(self):
        self._open = builtins.open
        self._io_open = io.open
        inner = builtins.open
        me = self

        def d_open(file, mode='r', buffering=-1, encoding=None, errors=None,
                   newline=None, closefd=True, opener=None):
            if (encoding is None or encoding == 'locale') \
                    and isinstance(mode, str) and 'b' not in mode \
                    and not isinstance(file, int):
                encoding = me.encoding
                me.used += 1
            return inner(file, mode, buffering, encoding, errors, newline,
                         closefd, opener)
        builtins.open = d_open
        io.open = d_open
        return self

    def __exit__(self, *exc):
        builtins.open = self._open
        io.open = self._io_open
        if self.counter is not None and self.used:
            self.counter['default_encoding_%s_relied_upon' % self.encoding] \
                += self.used
        return False
