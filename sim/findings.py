"""
KNOWN_FINDINGS.txt: committed, line oriented, never written at run time.

    known: property=C03 sig=<python regex, fullmatch on the signature> :: text
    fixed: property=C14 <commit> <what failed>

A `known:` entry turns a violation whose signature it matches into a
KNOWN-FINDING line; `fixed:` entries suppress nothing.
"""

import os
import re

PATH = os.path.join(os.path.dirname(os.path.dirname(os.path.abspath(__file__))),
                    'KNOWN_FINDINGS.txt')


class Known(object):
    def __init__(self, prop, sig_re, text):
        self.prop = prop
        self.sig_src = sig_re
        self.sig_re = re.compile(sig_re)
        self.text = text

    def matches(self, prop, signature):
        return prop == self.prop and self.sig_re.fullmatch(signature)


def load(path=None):
    path = path or PATH
    known = []
    fixed = []
    if not os.path.exists(path):
        return known, fixed
    with open(path, encoding='utf-8') as f:
        for line in f:
            line = line.strip()
            if not line or line.startswith('#'):
                continue
            if line.startswith('known:'):
                m = re.match(r'known:\s+property=(\S+)\s+sig=(\S+)\s+::\s*(.*)$',
                             line)
                if not m:
                    raise ValueError('bad known-findings line: %r' % line)
                known.append(Known(m.group(1), m.group(2), m.group(3)))
            elif line.startswith('fixed:'):
                fixed.append(line)
            else:
                raise ValueError('bad known-findings line: %r' % line)
    return known, fixed


def match(known, prop, signature):
    for k in known:
        if k.matches(prop, signature):
            return k
    return None
