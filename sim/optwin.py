"""
Environment seam: an interpreter started with -O / PYTHONOPTIMIZE=1.

`assert` statements (and `if __debug__:` blocks) are compiled out under -O,
so code that validates its arguments with assert behaves differently there.
The simulator's workers run without -O; this context manager gives one call
into tdda the code a -O interpreter would run: for its duration the `tdda`
package is re-imported from the same source files, compiled with optimize=1,
into a separate set of module objects (kept per worker and reused), and the
ordinary modules are put back afterwards.  Nothing outside `tdda` is
recompiled.  The twin modules carry no simulator stubs, so it is used only
for invocations that are expected to be refused before they do any work.
"""

import importlib.abc
import importlib.machinery
import sys


def _is_tdda(name):
    return name == 'tdda' or name.startswith('tdda.')


class _OptLoader(importlib.machinery.SourceFileLoader):
    def get_code(self, fullname):
        path = self.get_filename(fullname)
        return compile(self.get_data(path), path, 'exec', dont_inherit=True,
                       optimize=1)


class _Finder(importlib.abc.MetaPathFinder):
    def find_spec(self, name, path=None, target=None):
        if not _is_tdda(name):
            return None
        spec = importlib.machinery.PathFinder.find_spec(name, path)
        if spec is not None and isinstance(
                spec.loader, importlib.machinery.SourceFileLoader) \
                and not isinstance(spec.loader, _OptLoader):
            spec.loader = _OptLoader(spec.loader.name, spec.loader.path)
        return spec


class OptimizedTwin(object):
    _twin = {}

    def __init__(self, counter=None):
        self.counter = counter

    def __enter__(self):
        self.saved = {k: v for k, v in sys.modules.items() if _is_tdda(k)}
        for k in self.saved:
            del sys.modules[k]
        sys.modules.update(OptimizedTwin._twin)
        self.finder = _Finder()
        sys.meta_path.insert(0, self.finder)
        if self.counter is not None:
            self.counter['interpreter_started_with_-O'] += 1
        return self

    def __exit__(self, *exc):
        sys.meta_path.remove(self.finder)
        twin = {k: v for k, v in sys.modules.items() if _is_tdda(k)}
        OptimizedTwin._twin = twin
        for k in twin:
            del sys.modules[k]
        sys.modules.update(self.saved)
        return False
