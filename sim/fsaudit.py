"""
Filesystem observation: complete before/after snapshots of directory trees and
a write-audit log of every mutating call made through Python's file API while
an operation runs.  Snapshots also see writes that bypass Python `open`
(pyarrow), the audit log attributes writes to call sites.
"""

import builtins
import hashlib
import io
import os
import shutil


def snapshot(roots):
    """{path: (kind, size, mtime_ns, sha256)} for every entry under roots."""
    snap = {}
    for root in roots:
        if not os.path.lexists(root):
            continue
        if os.path.isfile(root):
            snap[root] = _entry(root)
            continue
        for dirpath, dirnames, filenames in os.walk(root):
            dirnames.sort()
            for d in dirnames:
                p = os.path.join(dirpath, d)
                snap[p] = ('dir', 0, 0, '')
            for f in sorted(filenames):
                p = os.path.join(dirpath, f)
                snap[p] = _entry(p)
    return snap


def _entry(p):
    try:
        st = os.lstat(p)
        if os.path.islink(p):
            return ('link', 0, st.st_mtime_ns, os.readlink(p))
        with io.open(p, 'rb') as f:
            h = hashlib.sha256(f.read()).hexdigest()
        return ('file', st.st_size, st.st_mtime_ns, h)
    except OSError as e:
        return ('err', 0, 0, str(e.errno))


def diff(before, after, ignore_mtime=False):
    """Returns sorted list of (path, change) with change in
    created/deleted/modified/touched."""
    out = []
    for p in sorted(set(before) | set(after)):
        b = before.get(p)
        a = after.get(p)
        if b is None:
            out.append((p, 'created'))
        elif a is None:
            out.append((p, 'deleted'))
        elif b != a:
            if b[0] == a[0] and b[1] == a[1] and b[3] == a[3]:
                if not ignore_mtime:
                    out.append((p, 'touched'))
            else:
                out.append((p, 'modified'))
    return out


class FsFaultInjected(OSError):
    pass


class FsSeam(object):
    """
    Wraps builtins.open / io.open and the mutating os/shutil calls.

    - records every write-mode open and every mutating call in self.log as
      (call, absolute path)
    - numbers *write sites* (write-mode opens, makedirs, remove, rename,
      copy) from 0 within the current op; if `fault` = {'site': k,
      'errno': n, 'short': nbytes|None} is armed, site k raises OSError(n)
      (or, for opens with short set, yields a file that accepts that many
      characters and then raises)
    - `read_fault` = {'path_suffix': s, 'errno': n}: read-mode open of a
      matching path raises.
    Only paths under `roots` count (python's own imports etc. are ignored).
    """

    def __init__(self, roots):
        self.roots = [os.path.realpath(r) for r in roots]
        self.log = []
        self.site = 0
        self.fault = None
        self.read_fault = None
        self.fired = []
        self.active = False

    # -- helpers
    def _mine(self, path):
        try:
            if isinstance(path, int):
                return False
            p = os.path.abspath(os.fspath(path))
        except TypeError:
            return False
        if isinstance(p, bytes):
            p = p.decode('utf-8', 'replace')
        return any(p == r or p.startswith(r + os.sep) for r in self.roots)

    def _abs(self, path):
        p = os.path.abspath(os.fspath(path))
        return p.decode('utf-8', 'replace') if isinstance(p, bytes) else p

    def _site(self, call, path):
        """Register a write site; maybe raise the armed fault."""
        p = self._abs(path)
        self.log.append((call, p))
        k = self.site
        self.site += 1
        f = self.fault
        if f is not None and f.get('site') == k and f.get('short') is None:
            self.fired.append((f.get('kind', 'oserror'), call, p))
            import errno as _e
            raise FsFaultInjected(f['errno'], os.strerror(f['errno']), p)
        if f is not None and f.get('site') == k:
            return f
        return None

    def begin_op(self, fault=None, read_fault=None):
        self.log = []
        self.site = 0
        self.fault = fault
        self.read_fault = read_fault
        self.fired = []

    # -- install / remove
    def __enter__(self):
        seam = self
        self._orig = {
            'open': builtins.open, 'io_open': io.open,
            'remove': os.remove, 'unlink': os.unlink, 'rename': os.rename,
            'replace': os.replace, 'makedirs': os.makedirs,
            'mkdir': os.mkdir, 'rmdir': os.rmdir,
            'copyfile': shutil.copyfile, 'copy': shutil.copy,
            'rmtree': shutil.rmtree, 'move': shutil.move,
        }
        o = self._orig

        def s_open(file, mode='r', *a, **kw):
            if seam._mine(file):
                m = mode if isinstance(mode, str) else 'r'
                if any(c in m for c in 'wax+'):
                    f = seam._site('open:' + m, file)
                    fobj = o['open'](file, mode, *a, **kw)
                    if f is not None and f.get('flush'):
                        return FlushFailFile(fobj, f, seam, seam._abs(file))
                    if f is not None:
                        return ShortWriteFile(fobj, f, seam,
                                              seam._abs(file))
                    return fobj
                rf = seam.read_fault
                if rf is not None and seam._abs(file).endswith(
                        rf['path_suffix']):
                    seam.fired.append((rf.get('kind', 'read_error'),
                                       'open:' + m, seam._abs(file)))
                    raise FsFaultInjected(rf['errno'],
                                          os.strerror(rf['errno']),
                                          seam._abs(file))
            return o['open'](file, mode, *a, **kw)

        def wrap1(name, call):
            orig = o[name]

            def w(path, *a, **kw):
                if seam._mine(path):
                    seam._site(call, path)
                return orig(path, *a, **kw)
            return w

        def wrap2(name, call):
            orig = o[name]

            def w(src, dst, *a, **kw):
                if seam._mine(dst):
                    seam._site(call, dst)
                elif seam._mine(src) and call in ('rename', 'move'):
                    seam._site(call, src)
                return orig(src, dst, *a, **kw)
            return w

        builtins.open = s_open
        io.open = s_open
        os.remove = wrap1('remove', 'remove')
        os.unlink = wrap1('unlink', 'remove')
        os.makedirs = wrap1('makedirs', 'makedirs')
        os.mkdir = wrap1('mkdir', 'mkdir')
        os.rmdir = wrap1('rmdir', 'rmdir')
        os.rename = wrap2('rename', 'rename')
        os.replace = wrap2('replace', 'rename')
        shutil.copyfile = wrap2('copyfile', 'copy')
        shutil.copy = wrap2('copy', 'copy')
        shutil.move = wrap2('move', 'move')
        shutil.rmtree = wrap1('rmtree', 'rmtree')
        self.active = True
        return self

    def __exit__(self, *exc):
        o = self._orig
        builtins.open = o['open']
        io.open = o['io_open']
        os.remove = o['remove']
        os.unlink = o['unlink']
        os.makedirs = o['makedirs']
        os.mkdir = o['mkdir']
        os.rmdir = o['rmdir']
        os.rename = o['rename']
        os.replace = o['replace']
        shutil.copyfile = o['copyfile']
        shutil.copy = o['copy']
        shutil.move = o['move']
        shutil.rmtree = o['rmtree']
        self.active = False
        return False


class ShortWriteFile(object):
    """File proxy that accepts `short` characters/bytes and then raises."""

    def __init__(self, fobj, fault, seam, path):
        self._f = fobj
        self._left = fault['short']
        self._fault = fault
        self._seam = seam
        self._path = path

    def write(self, data):
        if len(data) <= self._left:
            self._left -= len(data)
            return self._f.write(data)
        part = data[:self._left]
        self._f.write(part)
        self._f.flush()
        self._left = 0
        self._seam.fired.append((self._fault.get('kind', 'short_write'),
                                 'write', self._path))
        raise FsFaultInjected(self._fault['errno'],
                              os.strerror(self._fault['errno']), self._path)

    def writelines(self, lines):
        for l in lines:
            self.write(l)

    def __enter__(self):
        return self

    def __exit__(self, *exc):
        self._f.close()
        return False

    def __iter__(self):
        return iter(self._f)

    def __getattr__(self, name):
        return getattr(self._f, name)


class FlushFailFile(object):
    """File proxy for a device that is full when the buffered data is
    finally written out: write() succeeds (into the buffer), an explicit
    flush() or close() raises, and a file that is merely dropped is finalised
    quietly, as the interpreter does.  Nothing reaches the file."""

    def __init__(self, fobj, fault, seam, path):
        self._f = fobj
        self._fault = fault
        self._seam = seam
        self._path = path
        self._pending = False
        self._closed = False

    def write(self, data):
        self._pending = self._pending or bool(data)
        return len(data)

    def writelines(self, lines):
        for l in lines:
            self.write(l)

    def _fail(self):
        self._seam.fired.append((self._fault.get('kind', 'flush_error'),
                                 'flush', self._path))
        raise FsFaultInjected(self._fault['errno'],
                              os.strerror(self._fault['errno']), self._path)

    def flush(self):
        if self._pending:
            self._pending = False
            self._fail()

    def close(self):
        if self._closed:
            return
        self._closed = True
        pending, self._pending = self._pending, False
        self._f.close()
        if pending:
            self._fail()

    def __enter__(self):
        return self

    def __exit__(self, *exc):
        self.close()
        return False

    def __del__(self):
        try:
            if not self._closed:
                self._closed = True
                if self._pending:
                    self._seam.fired.append(('flush_error_unreported',
                                             'finalise', self._path))
                self._f.close()
        except Exception:
            pass

    def __getattr__(self, name):
        return getattr(self._f, name)
