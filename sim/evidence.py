"""Writes /verif/evidence/<id>.json from what the campaign measured."""

import json
import os

HERE = os.path.dirname(os.path.dirname(os.path.abspath(__file__)))


def _merge(dst, src):
    for k, v in src.items():
        if isinstance(v, dict):
            _merge(dst.setdefault(k, {}), v)
        elif isinstance(v, (int, float)) and not isinstance(v, bool):
            dst[k] = dst.get(k, 0) + v
        else:
            dst[k] = v


def _trim(obj, maxlen=400, depth=0):
    """Shorten long strings/lists in sample plans."""
    if isinstance(obj, str):
        return obj if len(obj) <= maxlen else obj[:maxlen] + '...[%d chars]' % len(obj)
    if isinstance(obj, list):
        out = [_trim(x, maxlen, depth + 1) for x in obj[:40]]
        if len(obj) > 40:
            out.append('...[%d items]' % len(obj))
        return out
    if isinstance(obj, dict):
        return {k: _trim(v, maxlen, depth + 1) for k, v in obj.items()}
    return obj


def write(prop, tier, seed, machine, camp, by_sig, seen_known, reported,
          watchdogs, xh_compared, harness):
    results = camp.results
    stats = {}
    shapes = set()
    states = set()
    inter = set()
    sim_time = 0
    nops = 0
    clean_runs = 0
    samples = []
    for run in sorted(results):
        rec = results[run]
        _merge(stats, rec.get('stats', {}))
        if rec.get('nontrivial'):
            shapes.add(rec.get('shape', ''))
        states.update(rec.get('states', []))
        if rec.get('interleaving'):
            inter.add(rec['interleaving'])
        sim_time += rec.get('sim_time', 0) or 0
        nops += rec.get('nops', 0)
        if not rec['violations']:
            clean_runs += 1
        if 'plan' in rec and len(samples) < 3:
            samples.append(_trim(rec['plan']))
    done = len(results)
    runs = sorted(results)
    coverage = {
        'evaluations': done,
        'distinct_nontrivial': len(shapes),
        'rule': machine.RULES[prop],
        'samples': samples,
        'operations_executed': nops,
        'runs_per_hour': int(done / camp.wall * 3600) if camp.wall else 0,
        'seeds': {'verif_seed': seed,
                  'derivation': 'run_seed = derive(VERIF_SEED, property, run)'
                                ' (sim/rng.py, splitmix64 chain)',
                  'first_run': runs[0] if runs else None,
                  'last_run': runs[-1] if runs else None},
        'sim_time_covered_s': sim_time,
        'faults_fired': stats.get('faults', {}),
        'probes': stats.get('probes', {}),
        'abstentions': stats.get('abstain', {}),
        'oracle_checks': stats.get('checks', {}),
        'distinct_interleavings': len(inter),
        'distinct_states': len(states),
        'states_measure': machine.STATES_MEASURE,
        'known_findings_seen': {src: {'occurrences': n, 'text': k.text,
                                      'distinct_signatures': len(sigs)}
                                for src, (k, n, sigs) in seen_known.items()},
        'runs_free_of_any_violation_or_known_finding': clean_runs,
        'signatures_seen': {s: len(v) for s, v in sorted(by_sig.items())},
        'unlisted_violations_reported': reported,
        'components': machine.COMPONENTS,
        'watchdog_timeouts': watchdogs,
        'workers': camp.nworkers,
        'hash_seeds': camp.hash_seeds,
        'cross_hash_seed_runs_compared': xh_compared,
        'harness_errors': [str(h)[:500] for h in harness],
        'repo': os.environ.get('TDDA_REPO', '/repo'),
    }
    doc = {
        'property_id': prop,
        'tier': tier,
        'seed': seed,
        'level': machine.LEVELS.get(prop, 'exploration'),
        'coverage': coverage,
        'assumptions': machine.ASSUMPTIONS.get(prop, []),
        'wall_s': round(camp.wall, 2),
        'violations': len(reported),
    }
    d = os.path.join(HERE, 'evidence')
    os.makedirs(d, exist_ok=True)
    tmp = os.path.join(d, '%s.json.tmp' % prop)
    with open(tmp, 'w', encoding='utf-8') as f:
        json.dump(doc, f, indent=1, ensure_ascii=False, sort_keys=False)
        f.write('\n')
    os.replace(tmp, os.path.join(d, '%s.json' % prop))
