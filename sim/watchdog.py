"""The per-run watchdog exception (BaseException so tdda's `except Exception`
does not swallow it; machines must re-raise it from bare excepts)."""


class WatchdogTimeout(BaseException):
    pass
