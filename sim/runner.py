"""
Master process of ./check: derives run seeds, drives worker interpreters,
aggregates, triages against KNOWN_FINDINGS.txt, minimises and confirms
violations in a fresh interpreter, writes evidence, sets the exit status.

exit 0  property held on everything explored (KNOWN-FINDING lines allowed)
exit 1  >= 1 unlisted violation (each with a VIOLATION line)
exit 2  harness error (never looks like a pass)
"""

import sys
sys.dont_write_bytecode = True

import argparse
import json
import os
import queue
import subprocess
import tempfile
import threading
import time

HERE = os.path.dirname(os.path.dirname(os.path.abspath(__file__)))
if HERE not in sys.path:
    sys.path.insert(0, HERE)

from sim import rng as simrng          # noqa: E402
from sim import registry               # noqa: E402
from sim import findings               # noqa: E402
from sim import evidence as ev         # noqa: E402

PYTHON = os.environ.get('VERIF_PYTHON', '/venv/bin/python')
WORKER = os.path.join(HERE, 'sim', 'worker.py')
REPLAYS = os.path.join(HERE, 'replays')
BATCH_TIMEOUT_S = 600
MAX_MINIMISE = 6
MAX_REPORT = 12     # signatures confirmed + reported per campaign (lowest run
                    # first); further distinct signatures are only counted


def log(*a):
    print(*a, flush=True)


class Worker(object):
    def __init__(self, hashseed, slot):
        env = dict(os.environ)
        env['PYTHONHASHSEED'] = str(hashseed)
        env['PYTHONDONTWRITEBYTECODE'] = '1'
        env.pop('PYTHONPATH', None)
        self.slot = slot
        self.hashseed = hashseed
        self.errlog = tempfile.TemporaryFile(mode='w+')
        self.p = subprocess.Popen([PYTHON, '-B', WORKER, '--serve'],
                                  stdin=subprocess.PIPE,
                                  stdout=subprocess.PIPE,
                                  stderr=self.errlog, env=env, text=True,
                                  bufsize=1)

    def request(self, req):
        self.p.stdin.write(json.dumps(req) + '\n')
        self.p.stdin.flush()

    def read(self):
        line = self.p.stdout.readline()
        if not line:
            return None
        return json.loads(line)

    def stderr_tail(self, n=3000):
        try:
            self.errlog.seek(0)
            return self.errlog.read()[-n:]
        except Exception:
            return ''

    def close(self):
        try:
            self.p.stdin.write(json.dumps({'cmd': 'quit'}) + '\n')
            self.p.stdin.flush()
            self.p.stdin.close()
        except Exception:
            pass
        try:
            self.p.wait(timeout=10)
        except Exception:
            self.p.kill()


class Campaign(object):
    def __init__(self, prop, tier, verif_seed, nworkers, nruns, wall_cap,
                 first_run=0):
        self.prop = prop
        self.tier = tier
        self.seed = verif_seed
        self.nworkers = max(3, nworkers)
        self.nruns = nruns
        self.wall_cap = wall_cap
        self.first_run = first_run
        self.results = {}
        self.xhash = {}                 # (run, slot) -> digest
        self.harness_errors = []
        self.lock = threading.Lock()
        self.t0 = time.monotonic()
        self.stop = False

    def _thread(self, w, q):
        while True:
            try:
                batch = q.get_nowait()
            except queue.Empty:
                return
            if self.stop or time.monotonic() - self.t0 > self.wall_cap:
                self.stop = True
                return
            req = {'cmd': 'run', 'prop': self.prop, 'tier': self.tier,
                   'verif_seed': self.seed, 'runs': batch['runs'],
                   'batch': batch['id'],
                   'sample_runs': batch.get('sample_runs', [])}
            try:
                w.request(req)
                while True:
                    rec = w.read()
                    if rec is None:
                        raise RuntimeError('worker died: '
                                           + w.stderr_tail())
                    if 'done' in rec:
                        break
                    with self.lock:
                        if 'harness_error' in rec:
                            self.harness_errors.append(
                                'run %s: %s' % (rec['run'],
                                                rec['harness_error']))
                        elif batch.get('xhash'):
                            self.xhash[(rec['run'], w.slot)] = rec
                        else:
                            self.results[rec['run']] = rec
            except Exception as e:
                with self.lock:
                    self.harness_errors.append('worker slot %d: %s'
                                               % (w.slot, e))
                self.stop = True
                return

    def run(self, xhash_every=0):
        hs = simrng.hash_seeds(self.seed)
        per = [self.nworkers // 3 + (1 if i < self.nworkers % 3 else 0)
               for i in range(3)]
        pools = [[Worker(hs[s], s) for _ in range(per[s])] for s in range(3)]
        queues = [queue.Queue() for _ in range(3)]
        runs = list(range(self.first_run, self.first_run + self.nruns))
        sample_runs = runs[:3]
        B = 20
        bid = 0
        for s in range(3):
            mine = [r for r in runs if r % 3 == s]
            for i in range(0, len(mine), B):
                queues[s].put({'id': bid, 'runs': mine[i:i + B],
                               'sample_runs': sample_runs})
                bid += 1
        if xhash_every:
            xr = [r for r in runs if r % xhash_every == 0]
            for s in range(3):
                other = [r for r in xr if r % 3 != s]
                for i in range(0, len(other), B):
                    queues[s].put({'id': bid, 'runs': other[i:i + B],
                                   'xhash': True})
                    bid += 1
        threads = []
        for s in range(3):
            for w in pools[s]:
                t = threading.Thread(target=self._thread,
                                     args=(w, queues[s]), daemon=True)
                t.start()
                threads.append(t)
        deadline = self.t0 + self.wall_cap + BATCH_TIMEOUT_S
        for t in threads:
            t.join(max(1, deadline - time.monotonic()))
            if t.is_alive():
                self.harness_errors.append('worker thread hung')
        for pool in pools:
            for w in pool:
                if any(t.is_alive() for t in threads):
                    w.p.kill()
                else:
                    w.close()
        self.hash_seeds = hs
        self.wall = time.monotonic() - self.t0


def run_worker_once(args, hashseed, timeout):
    env = dict(os.environ)
    env['PYTHONHASHSEED'] = str(hashseed)
    env['PYTHONDONTWRITEBYTECODE'] = '1'
    env.pop('PYTHONPATH', None)
    return subprocess.run([PYTHON, '-B', WORKER] + args, env=env,
                          capture_output=True, text=True, timeout=timeout)


def confirm_fresh(plan, signature, hashseed):
    """Re-execute in a fresh interpreter; True iff same signature shows."""
    with tempfile.NamedTemporaryFile('w', suffix='.json', delete=False) as f:
        json.dump(plan, f)
        path = f.name
    try:
        r = run_worker_once(['--replay', path], hashseed, 120)
        if r.returncode != 0:
            return False, 'replay exited %d: %s' % (r.returncode,
                                                    r.stderr[-2000:])
        out = json.loads(r.stdout.strip().splitlines()[-1])
        ok = any(v['signature'] == signature for v in out['violations'])
        return ok, out
    finally:
        os.unlink(path)


def minimise_plan(plan, signature, hashseed):
    with tempfile.NamedTemporaryFile('w', suffix='.json', delete=False) as f:
        json.dump({'plan': plan, 'signature': signature}, f)
        path = f.name
    outp = path + '.out'
    try:
        r = run_worker_once(['--minimise', path, outp], hashseed, 200)
        if r.returncode != 0 or not os.path.exists(outp):
            return plan, 0
        with open(outp) as f:
            j = json.load(f)
        return j['plan'], j['executions']
    except subprocess.TimeoutExpired:
        return plan, 0
    finally:
        for p in (path, outp):
            if os.path.exists(p):
                os.unlink(p)


def do_replay(path):
    with open(path, encoding='utf-8') as f:
        plan = json.load(f)
    prop = plan['property']
    hs = simrng.hash_seeds(plan.get('verif_seed',
                                    simrng.DEFAULT_VERIF_SEED))
    hseed = hs[plan.get('config', {}).get('hashseed_slot', 0)]
    r = run_worker_once(['--replay', path], hseed, 300)
    if r.returncode != 0:
        log('HARNESS-ERROR replay failed: ' + r.stderr[-3000:])
        return 2
    out = json.loads(r.stdout.strip().splitlines()[-1])
    expect = plan.get('expect', {}).get('signature')
    sigs = [v['signature'] for v in out['violations']]
    log('replay of %s: %d violation(s)' % (path, len(sigs)))
    for v in out['violations']:
        log('  %s :: %s' % (v['signature'], v.get('detail', '')[:400]))
    if expect:
        if expect in sigs:
            log('VIOLATION property=%s replay=%s' % (prop, path))
            return 1
        log('expected signature %s not reproduced' % expect)
        return 0
    if sigs:
        log('VIOLATION property=%s replay=%s' % (prop, path))
        return 1
    return 0


def main(argv=None):
    ap = argparse.ArgumentParser(prog='check')
    ap.add_argument('prop')
    ap.add_argument('--tier', default=os.environ.get('VERIF_TIER') or 'quick',
                    choices=['quick', 'thorough'])
    ap.add_argument('--seed', type=int, default=None)
    ap.add_argument('--workers', type=int,
                    default=int(os.environ.get('VERIF_WORKERS', '16')))
    ap.add_argument('--runs', type=int, default=None)
    ap.add_argument('--first-run', type=int, default=0)
    ap.add_argument('--replay', default=None)
    ap.add_argument('--no-evidence', action='store_true')
    ap.add_argument('--wall-cap', type=float, default=None)
    a = ap.parse_args(argv)

    if a.replay:
        return do_replay(a.replay)

    prop = a.prop
    if prop not in registry.MACHINE_OF:
        log('property %s is not claimed (not applicable or unknown)' % prop)
        return 2
    seed = a.seed if a.seed is not None else int(
        os.environ.get('VERIF_SEED') or simrng.DEFAULT_VERIF_SEED)
    m = registry.machine(prop)
    tier = m.TIERS[prop][a.tier]
    nruns = a.runs or tier['runs']
    wall_cap = a.wall_cap or tier['wall_cap']
    log('check %s tier=%s VERIF_SEED=%d runs=%d..%d workers=%d repo=%s'
        % (prop, a.tier, seed, a.first_run, a.first_run + nruns - 1,
           a.workers, os.environ.get('TDDA_REPO', '/repo')))

    c = Campaign(prop, a.tier, seed, a.workers, nruns, wall_cap, a.first_run)
    c.run(xhash_every=tier.get('xhash_every', 0))

    known, _fixed = findings.load()
    # ---- collect violations by signature (lowest run first)
    by_sig = {}
    watchdogs = 0
    for run in sorted(c.results):
        rec = c.results[run]
        if rec.get('watchdog'):
            watchdogs += 1
        for v in rec['violations']:
            by_sig.setdefault(v['signature'], []).append((run, v))
    # ---- cross-hash-seed comparison (a C14 clause; determinism elsewhere)
    xh_compared = 0
    for (run, slot), rec in sorted(c.xhash.items()):
        base = c.results.get(run)
        if base is None:
            continue
        xh_compared += 1
        if rec['digest'] != base['digest']:
            sig = '%s/hashseed/observations-differ-across-PYTHONHASHSEED' % prop
            v = {'clause': 'hashseed', 'signature': sig,
                 'detail': 'run %d: digest under hash slot %d differs from '
                           'slot %d' % (run, slot, run % 3),
                 'xhash_slot': slot}
            by_sig.setdefault(sig, []).append((run, v))

    exit_code = 0
    seen_known = {}
    unlisted = []
    for sig in sorted(by_sig, key=lambda s: by_sig[s][0][0]):
        k = findings.match(known, prop, sig)
        if k is not None:
            seen_known.setdefault(k.sig_src, [k, 0, set()])
            seen_known[k.sig_src][1] += len(by_sig[sig])
            seen_known[k.sig_src][2].add(sig)
        else:
            unlisted.append(sig)

    for src, (k, n, sigs) in sorted(seen_known.items()):
        log('KNOWN-FINDING: property=%s %s [sig=%s; %d occurrence(s), '
            '%d distinct signature(s)]' % (prop, k.text, src, n, len(sigs)))

    os.makedirs(REPLAYS, exist_ok=True)
    reported = []
    harness = list(c.harness_errors)
    if len(unlisted) > MAX_REPORT:
        log('%d further distinct unlisted signature(s) not individually '
            'confirmed (first: %s)' % (len(unlisted) - MAX_REPORT,
                                       unlisted[MAX_REPORT]))
    for n, sig in enumerate(unlisted[:MAX_REPORT]):
        run, v = by_sig[sig][0]
        plan = c.results[run].get('plan')
        hseed = c.hash_seeds[v.get('xhash_slot', run % 3)]
        if plan is None:
            harness.append('no plan recorded for violating run %d' % run)
            continue
        if v.get('clause') == 'hashseed':
            # cross-interpreter violation: replay file = the plan; the
            # comparison itself is re-done by the runner (not minimised)
            path = os.path.join(REPLAYS, '%s-%d-%d.json' % (prop, seed, run))
            plan['expect'] = {'signature': sig, 'xhash': True}
            with open(path, 'w', encoding='utf-8') as f:
                json.dump(plan, f, indent=1)
            log('VIOLATION property=%s replay=%s' % (prop, path))
            log('  signature: %s\n  detail: %s' % (sig, v['detail']))
            reported.append(sig)
            exit_code = 1
            continue
        nexec = 0
        if n < MAX_MINIMISE:
            plan, nexec = minimise_plan(plan, sig, hseed)
        ok, out = confirm_fresh(plan, sig, hseed)
        if not ok:
            # fall back to the unminimised plan before calling it a leak
            plan = c.results[run]['plan']
            ok, out = confirm_fresh(plan, sig, hseed)
        if not ok:
            harness.append('violation %s (run %d) did not reproduce in a '
                           'fresh interpreter: determinism leak' % (sig, run))
            continue
        plan['expect'] = {'signature': sig, 'at_op': v.get('at_op'),
                          'detail': v.get('detail', '')[:2000],
                          'minimise_executions': nexec,
                          'occurrences_in_campaign': len(by_sig[sig])}
        path = os.path.join(REPLAYS, '%s-%d-%d.json' % (prop, seed, run))
        with open(path, 'w', encoding='utf-8') as f:
            json.dump(plan, f, indent=1, ensure_ascii=False)
        log('VIOLATION property=%s replay=%s' % (prop, path))
        log('  signature: %s  (%d occurrence(s); %d ops after minimisation)'
            % (sig, len(by_sig[sig]), len(plan.get('ops', []))))
        log('  detail: %s' % v.get('detail', '')[:600].replace('\n', '\n    '))
        reported.append(sig)
        exit_code = 1

    done = len(c.results)
    min_runs = max(1, int(nruns * tier.get('min_fraction', 0.5)))
    if done < min_runs:
        harness.append('only %d of %d runs finished (minimum %d)'
                       % (done, nruns, min_runs))
    if watchdogs > max(1, done // 100):
        harness.append('per-run watchdog fired on %d of %d runs'
                       % (watchdogs, done))

    if not a.no_evidence:
        ev.write(prop, a.tier, seed, m, c, by_sig, seen_known, reported,
                 watchdogs, xh_compared, harness)

    rate = done / c.wall * 3600 if c.wall else 0
    log('%s: %d runs in %.1fs (%.0f runs/h), %d distinct signature(s): '
        '%d known, %d unlisted; watchdogs=%d'
        % (prop, done, c.wall, rate, len(by_sig),
           len(by_sig) - len(unlisted), len(unlisted), watchdogs))
    if harness:
        for h in harness[:10]:
            log('HARNESS-ERROR: ' + str(h)[:3000])
        return 2
    return exit_code


if __name__ == '__main__':
    sys.exit(main())
