"""
Worker interpreter: generates plans from run seeds and executes them.

Modes
  --serve                 read JSON requests on stdin, write JSON results
  --replay FILE           execute the plan in FILE, print result JSON
  --minimise FILE OUT     minimise the plan in FILE keeping its signature
  --plan PROP RUN [TIER]  print the plan generated for that run

The tdda tree under test is imported from $TDDA_REPO (default /repo), the
current working tree, with bytecode writing disabled.
"""

import sys
sys.dont_write_bytecode = True

import faulthandler
import hashlib
import json
import os
import signal
import time
import traceback

HERE = os.path.dirname(os.path.dirname(os.path.abspath(__file__)))
REPO = os.environ.get('TDDA_REPO', '/repo')
for p in (HERE, REPO):
    if p not in sys.path:
        sys.path.insert(0, p)

from sim import rng as simrng          # noqa: E402
from sim import registry               # noqa: E402
from sim import world                  # noqa: E402
from sim.watchdog import WatchdogTimeout   # noqa: E402
from sim import stateguard             # noqa: E402

RUN_WATCHDOG_S = int(os.environ.get('VERIF_RUN_WATCHDOG', '20'))


def _alarm(signum, frame):
    raise WatchdogTimeout()


def canonical(obj):
    return json.dumps(obj, sort_keys=True, ensure_ascii=True,
                      separators=(',', ':'), default=repr)


def digest(events):
    return hashlib.sha256(canonical(events).encode('ascii')).hexdigest()


def make_plan(prop, verif_seed, run, tier):
    m = registry.machine(prop)
    run_seed = simrng.derive(verif_seed, prop, run)
    r = simrng.Rng(run_seed)
    plan = m.gen_plan(prop, r, tier, run)
    plan.update({'format': 1, 'property': prop, 'machine': m.NAME,
                 'verif_seed': verif_seed, 'run': run, 'run_seed': run_seed,
                 'tier': tier})
    plan.setdefault('config', {})['hashseed_slot'] = run % 3
    # plans must be pure JSON (this also catches accidental non-literals)
    return json.loads(json.dumps(plan))


def execute_plan(plan):
    """Executes under the per-run watchdog.  Returns the result dict.
    Exceptions escaping the machine's own code are harness errors."""
    m = registry.machine(plan['property'])
    signal.signal(signal.SIGALRM, _alarm)
    signal.alarm(RUN_WATCHDOG_S)
    t0 = time.perf_counter()
    try:
        res = m.execute(plan)
        res['watchdog'] = False
    except WatchdogTimeout:
        res = {'events': ['WATCHDOG'], 'violations': [], 'stats': {},
               'shape': 'watchdog', 'nontrivial': False, 'states': [],
               'watchdog': True}
    finally:
        signal.alarm(0)
        stateguard.restore()
    res['wall'] = time.perf_counter() - t0
    res['digest'] = digest(res.get('events', []))
    return res


def serve():
    # the protocol gets a private copy of fd 1; anything the system under
    # test prints (python level or fd level) goes to /dev/null
    out = os.fdopen(os.dup(1), 'w', buffering=1)
    devnull = os.open(os.devnull, os.O_WRONLY)
    os.dup2(devnull, 1)
    sys.stdout = open(os.devnull, 'w')
    for line in sys.stdin:
        line = line.strip()
        if not line:
            continue
        req = json.loads(line)
        if req.get('cmd') == 'quit':
            break
        prop = req['prop']
        for run in req['runs']:
            try:
                plan = make_plan(prop, req['verif_seed'], run, req['tier'])
                res = execute_plan(plan)
                rec = {'run': run, 'digest': res['digest'],
                       'violations': res['violations'],
                       'stats': res.get('stats', {}),
                       'shape': res.get('shape', ''),
                       'nontrivial': bool(res.get('nontrivial')),
                       'states': res.get('states', []),
                       'interleaving': res.get('interleaving', ''),
                       'sim_time': res.get('sim_time', 0),
                       'nops': len(plan.get('ops', [])),
                       'watchdog': res['watchdog'], 'wall': res['wall']}
                if res['violations'] or req.get('want_plan') \
                        or run in req.get('sample_runs', ()):
                    rec['plan'] = plan
                if req.get('want_events'):
                    rec['events'] = res.get('events', [])
            except WatchdogTimeout:
                rec = {'run': run, 'harness_error': 'watchdog outside execute'}
            except Exception:
                rec = {'run': run, 'harness_error': traceback.format_exc()}
            out.write(json.dumps(rec) + '\n')
            out.flush()
        out.write(json.dumps({'done': req.get('batch')}) + '\n')
        out.flush()
    world.cleanup_base()


def replay(path):
    with open(path, encoding='utf-8') as f:
        plan = json.load(f)
    res = execute_plan(plan)
    out = {'digest': res['digest'], 'violations': res['violations'],
           'watchdog': res['watchdog'], 'events': res.get('events', []),
           'stats': res.get('stats', {})}
    print(json.dumps(out))
    world.cleanup_base()


def minimise(path, outpath):
    from sim import minimise as mini
    with open(path, encoding='utf-8') as f:
        job = json.load(f)
    plan, n = mini.minimise(job['plan'], job['signature'], execute_plan,
                            budget_runs=job.get('budget_runs', 400),
                            budget_s=job.get('budget_s', 60))
    with open(outpath, 'w', encoding='utf-8') as f:
        json.dump({'plan': plan, 'executions': n}, f)
    world.cleanup_base()


def main(argv):
    faulthandler.enable()
    stateguard.preload()
    stateguard.snapshot()
    if argv[1] == '--serve':
        serve()
    elif argv[1] == '--replay':
        replay(argv[2])
    elif argv[1] == '--minimise':
        minimise(argv[2], argv[3])
    elif argv[1] == '--plan':
        tier = argv[4] if len(argv) > 4 else 'quick'
        seed = int(os.environ.get('VERIF_SEED', simrng.DEFAULT_VERIF_SEED))
        print(json.dumps(make_plan(argv[2], seed, int(argv[3]), tier),
                         indent=1, ensure_ascii=False))
    else:
        raise SystemExit('bad mode')


if __name__ == '__main__':
    main(sys.argv)
