"""
Seeded DataFrame generator over the column types tdda recognises (C01's
list), as JSON-able column specs, plus the builder that turns a spec into a
real pandas DataFrame.
"""

import datetime

WORDS = ['alpha', 'beta', 'gamma', 'delta', 'x', 'yy', 'zzz', 'A1', 'B-22',
         'hello world', "it's", 'say "hi"', 'back\\slash', 'tab\there',
         'café', 'naïve', '数据', 'Ω', '', ' lead', 'trail ', '12', '3.5',
         'NULL', 'nan', 'None', 'a,b', 'line\nbreak', '100%', 'ß',
         'alpha\n', 'beta\n']

INT_DTYPES = ['int8', 'int16', 'int32', 'int64', 'uint8', 'uint16', 'uint32',
              'uint64']
RANGES = {'int8': (-128, 127), 'int16': (-32768, 32767),
          'int32': (-2 ** 31, 2 ** 31 - 1), 'int64': (-2 ** 63, 2 ** 63 - 1),
          'uint8': (0, 255), 'uint16': (0, 65535), 'uint32': (0, 2 ** 32 - 1),
          'uint64': (0, 2 ** 64 - 1)}

FIELD_NAMES = ['a', 'b', 'c', 'n', 'value', 'Field Name', 'naïve', '数',
               "it's", 'x"y', 'a.b', 'min', 'type', 'n_failures', 'Index',
               'col_1', '1col', 'UPPER']

RECOGNISED = ['int', 'uint', 'Int64', 'float', 'bool', 'objbool', 'boolean',
              'str', 'category', 'dt_s', 'dt_ms', 'dt_us', 'dt_ns', 'dt_tz',
              'date']
# generated at a low, separately counted rate (not in C01's list / typed
# "other" by the pinned code)
EXTRA = ['string_ext', 'str_pd3']


def gen_int(r, lo, hi):
    k = r.weighted([(5, 'small'), (2, 'edge'), (2, 'any'), (1, 'zero')])
    if k == 'small':
        return max(lo, min(hi, r.randint(-20, 20)))
    if k == 'edge':
        return r.pick([lo, hi, lo + 1, hi - 1])
    if k == 'zero':
        return 0
    return r.randint(lo, hi)


def gen_float(r):
    k = r.weighted([(6, 'n'), (1, 'inf'), (1, 'ninf'), (1.5, 'whole'),
                    (1, 'tiny'), (1, 'huge'), (1, 'zero')])
    if k == 'n':
        return round(r.uniform(-100, 100), r.randint(0, 6))
    if k == 'inf':
        return 'inf'
    if k == 'ninf':
        return '-inf'
    if k == 'whole':
        return float(r.randint(-50, 50))
    if k == 'tiny':
        return r.pick([1e-300, -1e-300, 5e-324, 1.0000000000000002])
    if k == 'huge':
        return r.pick([1.7976931348623157e308, -1.7976931348623157e308,
                       1e17, 123456789.12345678])
    return r.pick([0.0, -0.0])


def gen_dt(r, unit):
    y = r.weighted([(6, r.randint(1990, 2040)), (1, r.randint(1700, 2200)),
                    (1, 1970)])
    d = datetime.datetime(y, r.randint(1, 12), r.randint(1, 28),
                          r.randint(0, 23), r.randint(0, 59),
                          r.randint(0, 59))
    if r.chance(0.3):
        d = d.replace(hour=0, minute=0, second=0)
    s = d.isoformat()
    if unit in ('ms', 'us', 'ns') and r.chance(0.5):
        frac = {'ms': '%03d' % r.randint(0, 999),
                'us': '%06d' % r.randint(0, 999999),
                'ns': '%09d' % r.randint(0, 999999999)}[unit]
        s += '.' + frac
    return s


def null_pattern(r, n):
    k = r.weighted([(5, 'none'), (2, 'one'), (2, 'some'), (1, 'all'),
                    (1, 'first'), (1, 'last')])
    if k == 'none' or n == 0:
        return [False] * n
    if k == 'one':
        p = [False] * n
        p[r.randrange(n)] = True
        return p
    if k == 'some':
        return [r.chance(0.4) for _ in range(n)]
    if k == 'all':
        return [True] * n
    if k == 'first':
        return [True] + [False] * (n - 1)
    return [False] * (n - 1) + [True]


def gen_column(r, name, n, kinds=None):
    kind = r.weighted(kinds or (
        [(3, 'int'), (1, 'uint'), (1.5, 'Int64'), (3, 'float'), (1.5, 'bool'),
         (1, 'objbool'), (0.7, 'boolean'), (4, 'str'), (1.5, 'category'),
         (0.7, 'dt_s'), (0.5, 'dt_ms'), (0.5, 'dt_us'), (1.5, 'dt_ns'),
         (0.8, 'dt_tz'), (0.8, 'date'), (0.15, 'string_ext'),
         (0.15, 'str_pd3')]))
    col = {'name': name, 'kind': kind}
    nulls = null_pattern(r, n)
    if kind == 'int':
        col['dtype'] = r.pick(['int8', 'int16', 'int32', 'int64', 'int64'])
        lo, hi = RANGES[col['dtype']]
        col['values'] = [gen_int(r, lo, hi) for _ in range(n)]
    elif kind == 'uint':
        col['dtype'] = r.pick(['uint8', 'uint16', 'uint32', 'uint64'])
        lo, hi = RANGES[col['dtype']]
        col['values'] = [gen_int(r, lo, hi) for _ in range(n)]
    elif kind == 'Int64':
        col['dtype'] = 'Int64'
        col['values'] = [None if nulls[i] else gen_int(r, -2 ** 63, 2 ** 63 - 1)
                         for i in range(n)]
    elif kind == 'float':
        col['dtype'] = r.pick(['float64', 'float64', 'float32'])
        col['values'] = [None if nulls[i] else gen_float(r)
                         for i in range(n)]
    elif kind == 'bool':
        col['dtype'] = 'bool'
        col['values'] = [r.chance(0.5) for _ in range(n)]
    elif kind == 'objbool':
        col['dtype'] = 'object'
        col['values'] = [None if nulls[i] else r.chance(0.5)
                         for i in range(n)]
    elif kind == 'boolean':
        col['dtype'] = 'boolean'
        col['values'] = [None if nulls[i] else r.chance(0.5)
                         for i in range(n)]
    elif kind in ('str', 'category', 'string_ext', 'str_pd3'):
        ncat = r.weighted([(5, r.randint(1, 5)), (2, r.randint(15, 24)),
                           (1, 40)])
        if n > 20 and r.chance(0.6):
            ncat = 40       # beyond MAX_CATEGORIES distinct values
        pool = []
        while len(pool) < ncat:
            w = r.pick(WORDS) if r.chance(0.6) else (
                r.pick(WORDS) + str(r.randint(0, 99)))
            if w not in pool:
                pool.append(w)
        distinct = r.chance(0.3) or (n > 20 and ncat == 40)
        vals = []
        for i in range(n):
            if nulls[i]:
                vals.append(None)
            elif distinct and i < len(pool):
                vals.append(pool[i])
            else:
                vals.append(r.pick(pool))
        col['dtype'] = {'str': 'object', 'category': 'category',
                        'string_ext': 'string', 'str_pd3': 'str'}[kind]
        col['values'] = vals
        if kind == 'str' and r.chance(0.2):
            # nulls held as NaN float objects that are not the np.nan
            # singleton (what unpickling or float('nan') gives)
            col['null_repr'] = 'nan_obj'
        if kind == 'category' and r.chance(0.4):
            # categories that no row uses (declared up front, or left
            # behind after rows were filtered out)
            col['extra_categories'] = r.sample(
                ['q', '', 'an unused and rather long category name 12345',
                 'Zz9', 'ünused'], r.randint(1, 2))
    elif kind.startswith('dt_'):
        unit = kind[3:]
        if unit == 'tz':
            col['dtype'] = 'datetime64[ns, %s]' % r.pick(
                ['UTC', 'Europe/London', 'US/Eastern', 'Asia/Tokyo'])
            unit = 'ns'
        else:
            col['dtype'] = 'datetime64[%s]' % unit
        col['values'] = [None if nulls[i] else gen_dt(r, unit)
                         for i in range(n)]
    elif kind == 'date':
        col['dtype'] = 'date'
        col['values'] = [None if nulls[i] else
                         '%04d-%02d-%02d' % (r.randint(1900, 2100),
                                             r.randint(1, 12),
                                             r.randint(1, 28))
                         for i in range(n)]
    return col


def gen_frame(r, max_rows=12, max_cols=4, kinds=None):
    n = r.weighted([(1.5, 0), (1, 1), (2, 2), (6, r.randint(3, max_rows)),
                    (0.8, r.randint(21, 32))])
    ncols = r.randint(1, max_cols)
    names = r.sample(FIELD_NAMES, ncols)
    if r.chance(0.6):
        names = [x for x in ['a', 'b', 'c', 'd'][:ncols]]
    cols = [gen_column(r, names[i], n, kinds) for i in range(ncols)]
    index = None
    if r.chance(0.15) and n:
        index = r.pick(['shifted', 'strings', 'reversed', 'dups'])
    return {'columns': cols, 'nrows': n, 'index': index}


def build_frame(spec):
    import numpy as np
    import pandas as pd
    d = {}
    n = spec['nrows']
    for c in spec['columns']:
        vals = c['values']
        dt = c['dtype']
        if dt in INT_DTYPES:
            s = pd.Series(np.array(vals, dtype=dt) if vals else
                          np.array([], dtype=dt))
        elif dt == 'Int64':
            s = pd.array(vals, dtype='Int64')
            s = pd.Series(s)
        elif dt in ('float64', 'float32'):
            f = [np.nan if v is None else float(v) for v in vals]
            s = pd.Series(np.array(f, dtype=dt))
        elif dt == 'bool':
            s = pd.Series(np.array(vals, dtype=bool))
        elif dt == 'boolean':
            s = pd.Series(pd.array(vals, dtype='boolean'))
        elif dt == 'object':
            if c.get('null_repr') == 'nan_obj':
                vals = [float('nan') if v is None else v for v in vals]
            s = pd.Series(vals, dtype=object)
        elif dt == 'category':
            s = pd.Series(vals, dtype=object).astype('category')
            extra = [x for x in c.get('extra_categories', [])
                     if x not in set(s.cat.categories)]
            if extra:
                s = s.cat.add_categories(extra)
        elif dt == 'string':
            s = pd.Series(vals, dtype='string')
        elif dt == 'str':
            s = pd.Series(vals, dtype='str')
        elif dt.startswith('datetime64'):
            if ', ' in dt:
                tz = dt[dt.index(', ') + 2:-1]
                s = pd.to_datetime(pd.Series(vals, dtype=object), format='ISO8601').astype(
                    'datetime64[ns]').dt.tz_localize(tz, ambiguous='NaT',
                                                     nonexistent='NaT')
            else:
                s = pd.to_datetime(pd.Series(vals, dtype=object), format='ISO8601').astype(dt)
        elif dt == 'date':
            s = pd.Series([None if v is None
                           else datetime.date.fromisoformat(v) for v in vals],
                          dtype=object)
        else:
            raise ValueError(dt)
        d[c['name']] = s
    df = pd.DataFrame(d)
    if len(df.columns) == 0:
        df = pd.DataFrame(index=range(n))
    idx = spec.get('index')
    if idx == 'shifted':
        df.index = range(10, 10 + len(df))
    elif idx == 'strings':
        df.index = ['r%d' % i for i in range(len(df))]
    elif idx == 'reversed':
        df.index = list(range(len(df) - 1, -1, -1))
    elif idx == 'dups':
        df.index = [i // 2 for i in range(len(df))]   # repeated labels
    return df


def frame_signature(spec):
    return ','.join(sorted('%s%s' % (c['kind'], '?' if any(
        v is None for v in c['values']) else '') for c in spec['columns'])) \
        + ':%d' % spec['nrows']
