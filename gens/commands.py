"""
Seeded generator of deterministic "commands" (simulated peer processes) for
gentest workloads: ordered effects out/err/write/exit with text that mixes
plain words, regex metacharacters, quotes, backslashes, date-, time- and
version-like digit groups placed relative to the *simulated* clock, and
tokens equal to / containing the simulated host, user, cwd, home, tmpdir.
"""

import datetime

WORDS = ['total', 'rows', 'read', 'wrote', 'done', 'ok', 'warning', 'step',
         'value', 'mean', 'file', 'loaded', 'records', 'time', 'elapsed']
UNI = ['café', 'naïve', '数据', 'данные', 'Ω', 'İstanbul']
META = ['(', ')', '[', ']', '{', '}', '*', '+', '?', '|', '^', '$', '.',
        '\\', '\\d', '\\n', "'", '"', "'''", '"""', '%s', '%(x)s', '#', '`']
MONTHN = ['Jan', 'January', 'Feb', 'Mar', 'March', 'Apr', 'May', 'Jun',
          'Jul', 'Aug', 'Sep', 'Sept', 'Oct', 'Nov', 'Dec', 'December']


def fmt_date(r, d):
    f = r.pick(['%Y-%m-%d', '%d/%m/%Y', '%m/%d/%Y', '%Y/%m/%d', '%d.%m.%Y',
                '%d-%m-%Y', 'euro', 'us', 'iso-dt', 'dt-space', 'dt-tz',
                '%Y-%m-%d %H:%M', 'short', '%d.%m.%y', '%y-%m-%d',
                '%m/%d/%y', 'euro2'])
    if f == 'euro2':
        return '%d %s %s' % (d.day, d.strftime('%b'), d.strftime('%y'))
    if f == 'euro':
        return '%d %s %d' % (d.day, d.strftime('%B'), d.year)
    if f == 'us':
        return '%s %d, %d' % (d.strftime('%b'), d.day, d.year)
    if f == 'iso-dt':
        return d.strftime('%Y-%m-%dT%H:%M:%S')
    if f == 'dt-space':
        return d.strftime('%Y-%m-%d %H:%M:%S') + '.%d' % r.randint(0, 999)
    if f == 'dt-tz':
        return d.strftime('%Y-%m-%d %H:%M:%S') + r.pick(['+01:00', 'Z',
                                                         ' -0500'])
    if f == 'short':
        return '%d/%d/%d' % (d.day, d.month, d.year)
    return d.strftime(f)


def date_token(r, now):
    """A date-like token inside, at the edge of, or far from the plausible
    window around simulated now; or a not-a-date digit triple."""
    where = r.weighted([(3, 'inside'), (3, 'edge'), (4, 'far'),
                        (3, 'notadate')])
    if where == 'inside':
        d = now + datetime.timedelta(seconds=r.randint(-3600 * 20, 3600 * 20))
    elif where == 'edge':
        d = now + datetime.timedelta(days=r.pick([-3, -2, -1, 1, 2, 3]),
                                     seconds=r.randint(-5, 5))
    elif where == 'far':
        d = now + datetime.timedelta(days=r.pick([-1, 1]) * r.randint(5, 4000))
    else:
        return r.pick(['version 1.2.0 build 15', '31/02/2020', '1.2.0',
                       '0.0.0', '10.20.30', '99/99/99', '2020-13-45',
                       '12.0.1', '00/00/0000', '1-1-1', '30/02/%d' % now.year,
                       '29.2.2023', '31 June 2031', 'Feb 30, 2031',
                       '3.14.159', '2.0.0-rc1', '192.168.0.1',
                       '0/0/0', '9999.12.31', '12/31/9999', '1.1.10000'[:8]])
    return fmt_date(r, d)


def time_token(r):
    return r.pick(['%02d:%02d' % (r.randint(0, 23), r.randint(0, 59)),
                   '%d:%02d:%02d' % (r.randint(0, 23), r.randint(0, 59),
                                     r.randint(0, 59)),
                   '%d.%03ds' % (r.randint(0, 99), r.randint(0, 999)),
                   '99:99', '7:5'])


def gen_line(r, ident, now):
    n = r.randint(1, 6)
    toks = []
    for _ in range(n):
        k = r.weighted([(8, 'w'), (3, 'n'), (2.2, 'date'), (1, 'time'),
                        (1.5, 'meta'), (1, 'uni'), (1.3, 'ident'),
                        (0.5, 'path')])
        if k == 'w':
            toks.append(r.pick(WORDS))
        elif k == 'n':
            toks.append(str(r.randint(0, 99999)))
        elif k == 'date':
            toks.append(date_token(r, now))
        elif k == 'time':
            toks.append(time_token(r))
        elif k == 'meta':
            toks.append(r.pick(META))
        elif k == 'uni':
            toks.append(r.pick(UNI))
        elif k == 'ident':
            key = r.pick(['host', 'user', 'cwd', 'home', 'tmpdir', 'ip',
                          'hostword', 'userword', 'cwd+tmpdir', 'tmpdir'])
            if key == 'cwd+tmpdir':
                # one line naming both the working and the scratch directory
                toks.append('copying %s/in.txt to %s/out.txt'
                            % (ident['cwd'], ident['tmpdir']))
            elif key == 'hostword':
                toks.append('x' + ident['host'] + 'y')
            elif key == 'userword':
                toks.append(ident['user'] + 's')
            else:
                toks.append(ident.get(key) or ident['host'])
        else:
            toks.append(r.pick(['/usr/local/bin', './out/a.txt',
                                'C:\\temp\\x', '~/data']))
    line = ' '.join(toks)
    if r.chance(0.03):
        line = line * r.randint(20, 60)
    return line


def gen_text(r, ident, now, maxlines=8):
    n = r.weighted([(1, 0), (3, 1), (6, r.randint(2, maxlines))])
    lines = [gen_line(r, ident, now) if not r.chance(0.05) else ''
             for _ in range(n)]
    text = '\n'.join(lines)
    if lines and r.chance(0.8):
        text += '\n'
    return text


TEXT_EXTS = ['.txt', '.csv', '.json', '.md', '']
BIN_EXTS = ['.png', '.png', '.gif', '.bin']


def gen_program(r, ident, now):
    """Returns (program dict, reference_files argument list)."""
    effects = []
    if r.chance(0.85):
        effects.append({'t': 'out', 'text': gen_text(r, ident, now)})
    if r.chance(0.3):
        effects.append({'t': 'err', 'text': gen_text(r, ident, now, 3)})
    nfiles = r.weighted([(4, 0), (4, 1), (2, 2), (1.5, 3)])
    layout = r.weighted([(4, 'cwd'), (2, 'subdir'), (1, 'tmpdir'),
                         (1.2 if nfiles >= 2 else 0, 'twodirs')])
    names = []
    sibling = False
    same_base = r.pick(['out', 'result']) + r.pick(TEXT_EXTS)
    for j in range(nfiles):
        binary = r.chance(0.25)
        ext = r.pick(BIN_EXTS if binary else TEXT_EXTS)
        base = r.pick(['out', 'result', 'data', 'report-1', 'a b']) + \
            ('%d' % j if j else '')
        name = base + ext
        if j == 1 and layout != 'twodirs' and r.chance(
                0.3 if nfiles < 3 else 0.6):
            # a sibling of the first file whose name differs from it only
            # in punctuation (report-1.txt / report_1.txt): the same
            # identifier once non-alphanumerics are replaced
            first = names[0].split('/')[-1]
            pos = [k for k, ch in enumerate(first) if not ch.isalnum()]
            if pos:
                k = r.pick(pos)
                alt = r.pick([c for c in '-_. ' if c != first[k]])
                name = first[:k] + alt + first[k + 1:]
                binary = False
                sibling = True
        if j == 2 and sibling and layout != 'twodirs' and r.chance(0.6):
            # ... and a third whose name is the first's with the number a
            # generator might append to tell the two apart
            first = names[0].split('/')[-1]
            stem, dot, ext1 = first.partition('.')
            if r.chance(0.6):
                # (a generator appending to the whole sanitised name)
                name = first + r.pick(['2', '2', '3'])
            else:
                name = stem + r.pick(['2', '1', '3']) + dot + ext1
            binary = False
        if any(name.endswith(x) or (x + '2') in name or (x + '3') in name
               for x in ('.png', '.gif', '.bin')) and not binary:
            # a sibling name derived from a binary file's name: keep the
            # content binary as well (a picture does not quote $TMPDIR)
            binary = True
            ext = '.png' if '.png' in name else '.bin'
        if layout == 'twodirs':
            # same basename in different directories (the reference
            # directory is flat, so the names collide there)
            binary = False
            path = '%s/%s' % ('abc'[j % 3], same_base if j < 2 or
                              r.chance(0.5) else name)
        elif layout == 'subdir':
            path = 'outdir/' + name
        elif layout == 'tmpdir':
            path = '$TMPDIR/' + name
        else:
            path = name
        if binary:
            data = bytes(r.randrange(256) for _ in range(r.randint(1, 60)))
            if ext == '.png':
                data = b'\x89PNG\r\n\x1a\n' + data
            effects.append({'t': 'write', 'path': path, 'hex': data.hex()})
        else:
            if any(x in path.rsplit('/', 1)[-1]
                   for x in ('.png', '.gif', '.bin')):
                # text is not written under a picture's name (gentest checks
                # such files byte for byte, whatever they quote)
                path = path + '.txt'
            effects.append({'t': 'write', 'path': path,
                            'text': gen_text(r, ident, now, 6)})
        names.append(path)
    code = r.weighted([(8, 0), (1, 1), (0.5, 2), (0.3, 127)])
    effects.append({'t': 'exit', 'code': code})
    # how are the output files named to gentest?
    if not names:
        refs = [] if r.chance(0.7) else ['.']
    else:
        how = r.weighted([(4, 'default'), (3, 'explicit'), (2, 'dir'),
                          (2, 'glob')])
        if layout == 'tmpdir':
            refs = [] if r.chance(0.5) else ['.']
        elif layout == 'twodirs':
            refs = r.pick([[], ['.'], list(names),
                           sorted({n.split('/')[0] for n in names})])
        elif how == 'default':
            refs = []
        elif how == 'explicit':
            refs = list(names)
        elif how == 'dir':
            refs = ['outdir'] if layout == 'subdir' else ['.']
        else:
            refs = ['outdir/*'] if layout == 'subdir' else [
                r.pick(['out*', '*.txt', 'r*', '*'])]
    prog = {'effects': effects,
            'duration': r.pick([0.01, 0.5, 2.0, 59.0, 3600.0])}
    return prog, refs
