"""
Seeded corpus generator for rexpy workloads (swarm style: each run enables a
random subset of character classes and structured families).
"""

LOWER = 'abcdefghijklmnopqrstuvwxyz'
UPPER = 'ABCDEFGHIJKLMNOPQRSTUVWXYZ'
DIGITS = '0123456789'
META = ']' '[' '^' '-' '\\' '.' '*' '?' '+' '(' ')' '{' '}' '|' '$'
PUNCT = '!"#$%&\'()*+,-./:;<=>?@[\\]^_`{|}~'
SPACE = [' ', '\t', '\n', '\r', '\x0b', '\x0c', '\xa0', ' ']
CONTROL = ['\x00', '\x01', '\x07', '\x1b', '\x7f']
NA_LETTERS = 'éßñüЖдΩλ中文אب'
LETTER_NUMBERS = 'ⅫⅣ'           # category Nl
NA_DIGITS = '٣३５'               # category Nd, non-ASCII
DIGIT_LIKES = '²½③'              # category No
COMBINING = ['́', '̈']

# classes that trip findings already known on the pinned tree are kept at a
# low, separately counted rate (DESIGN 6, rule 4)
RISKY = ('na_digits', 'digit_likes', 'letter_numbers', 'combining')

CLASSES = {
    'lower': list(LOWER), 'upper': list(UPPER), 'digits': list(DIGITS),
    'meta': list(META), 'punct': list(PUNCT), 'space': SPACE,
    'control': CONTROL, 'na_letters': list(NA_LETTERS),
    'letter_numbers': list(LETTER_NUMBERS), 'na_digits': list(NA_DIGITS),
    'digit_likes': list(DIGIT_LIKES), 'combining': COMBINING,
}


def choose_classes(r, risky_rate=0.04):
    cls = []
    for name, p in (('lower', .8), ('upper', .6), ('digits', .7),
                    ('meta', .35), ('punct', .35), ('space', .3),
                    ('control', .08), ('na_letters', .25)):
        if r.chance(p):
            cls.append(name)
    for name in RISKY:
        if r.chance(risky_rate):
            cls.append(name)
    if not cls:
        cls = ['lower', 'digits']
    return cls


def rand_string(r, classes, maxlen=12):
    n = r.weighted([(1, 0), (3, 1), (6, r.randint(2, 6)),
                    (3, r.randint(4, maxlen))])
    out = []
    # strings are runs of classes so that rexpy's fragment code has structure
    while len(out) < n:
        c = CLASSES[r.pick(classes)]
        run = r.randint(1, 4)
        if r.chance(0.3):
            ch = r.pick(c)
            out.extend([ch] * run)
        else:
            out.extend(r.pick(c) for _ in range(run))
    return ''.join(out[:n])


def fam_ids(r, n):
    sep = r.pick(['-', '_', '.', '/', ':', ' ', ''])
    la = r.randint(1, 3)
    nd = r.randint(1, 5)
    var = r.chance(0.5)
    out = []
    for _ in range(n):
        a = ''.join(r.pick(UPPER) for _ in range(la))
        k = r.randint(1, nd) if var else nd
        d = ''.join(r.pick(DIGITS) for _ in range(k))
        out.append(a + sep + d)
    return out


def fam_dates(r, n):
    sep = r.pick(['-', '/', '.'])
    return ['%04d%s%02d%s%02d' % (r.randint(1990, 2035), sep,
                                  r.randint(1, 12), sep, r.randint(1, 28))
            for _ in range(n)]


def fam_emails(r, n):
    out = []
    for _ in range(n):
        u = ''.join(r.pick(LOWER) for _ in range(r.randint(2, 7)))
        if r.chance(0.3):
            u += '.' + ''.join(r.pick(LOWER) for _ in range(r.randint(2, 5)))
        d = ''.join(r.pick(LOWER) for _ in range(r.randint(3, 6)))
        out.append('%s@%s.%s' % (u, d, r.pick(['com', 'org', 'co.uk'])))
    return out


def fam_uuid(r, n):
    hexd = '0123456789abcdef' if r.chance(0.5) else '0123456789ABCDEF'
    return ['-'.join(''.join(r.pick(hexd) for _ in range(k))
                     for k in (8, 4, 4, 4, 12)) for _ in range(n)]


def fam_many_frags(r, n):
    """> 99 coarse fragments: alternating letter/punct runs."""
    out = []
    k = r.randint(50, 64)
    for _ in range(n):
        out.append(''.join(r.pick(LOWER) + r.pick('-.:;') for _ in range(k)))
    return out


def fam_tels(r, n):
    fmt = r.pick(['(%03d) %03d %04d', '%03d-%03d-%04d', '+%02d %03d %04d',
                  '%03d.%03d.%04d'])
    return [fmt % (r.randint(0, 999), r.randint(0, 999), r.randint(0, 9999))
            for _ in range(n)]


def fam_bracket_punct(r, n):
    """Strings whose punctuation group is a small set of bracket-special
    characters: exercises escaped_bracket ordering/escaping."""
    k = r.randint(1, 4)
    chars = r.sample(['^', '-', ']', '\\', '[', '.', '*', '$'], k)
    out = []
    for _ in range(n):
        a = ''.join(r.pick(LOWER) for _ in range(r.randint(1, 3)))
        out.append(a + r.pick(chars) + ''.join(
            r.pick(DIGITS) for _ in range(r.randint(1, 3))))
    return out


def fam_hexish(r, n):
    """Short strings over a-f and digits next to ones over g-z: adding one
    example can *narrow* a pattern ([a-z] -> [0-9a-f]), so later samples can
    lose strings an earlier expression covered."""
    out = []
    for _ in range(n):
        k = r.randint(2, 3)
        kind = r.weighted([(3, 'af'), (2, 'gz'), (3, 'mix'), (1, 'dig')])
        alpha = {'af': 'abcdef', 'gz': 'ghjkmnpqrstuvwxyz',
                 'mix': 'abcdef0123456789', 'dig': '0123456789'}[kind]
        out.append(''.join(r.pick(alpha) for _ in range(k)))
    return out


def fam_currency(r, n):
    """Amounts ending in a literal dollar, some continuing past it."""
    out = []
    for _ in range(n):
        a = '%d$' % r.randint(1, 99)
        out.append(a if r.chance(0.6) else a + r.pick([' each', ' off',
                                                      '$', ' net']))
    return out


def fam_braces(r, n):
    """Literal text that spells a regex quantifier or group."""
    out = []
    k = r.randint(1, 3)
    q = r.pick(['{%d}' % k, '{%d,%d}' % (k, k + 1), '{,%d}' % k, '(?:x)',
                '[a-c]', '{%d' % k, '%d}' % k])
    for _ in range(n):
        a = ''.join(r.pick(LOWER) for _ in range(r.randint(0, 2)))
        out.append(a + q + (r.pick(LOWER) if r.chance(0.3) else ''))
    return out


FAMILIES = [fam_ids, fam_dates, fam_emails, fam_uuid, fam_tels,
            fam_bracket_punct, fam_many_frags]


def corpus(r, max_n=40, risky_rate=0.04, allow_none=True):
    """Returns (examples list possibly containing None / '' / repeats,
    info dict)."""
    classes = choose_classes(r, risky_rate)
    n = r.weighted([(2, r.randint(1, 4)), (5, r.randint(3, 14)),
                    (3, r.randint(10, max_n))])
    items = []
    fams = []
    mode = r.weighted([(4, 'random'), (3, 'family'), (3, 'mixed')])
    if mode in ('family', 'mixed'):
        nf = 1 if mode == 'family' else r.randint(1, 2)
        for _ in range(nf):
            fam = r.weighted([(3, fam_ids), (2, fam_dates), (2, fam_emails),
                              (1, fam_uuid), (2, fam_tels),
                              (3, fam_bracket_punct), (0.4, fam_many_frags),
                              (2.5, fam_hexish), (1.5, fam_currency),
                              (1.5, fam_braces)])
            k = max(1, n // (nf + (1 if mode == 'mixed' else 0)))
            if fam is fam_many_frags:
                k = min(k, 3)
            items.extend(fam(r, k))
            fams.append(fam.__name__)
    while len(items) < n:
        items.append(rand_string(r, classes))
    r.shuffle(items)
    items = items[:n]
    # repeats
    if r.chance(0.4) and items:
        for _ in range(r.randint(1, max(1, n // 2))):
            items.insert(r.randrange(len(items) + 1), r.pick(items))
    if allow_none and r.chance(0.15):
        for _ in range(r.randint(1, 3)):
            items.insert(r.randrange(len(items) + 1), None)
    if r.chance(0.15):
        for _ in range(r.randint(1, 2)):
            items.insert(r.randrange(len(items) + 1), '')
    if r.chance(0.12) and items:
        # leading/trailing whitespace variants (for strip)
        for _ in range(r.randint(1, 3)):
            i = r.randrange(len(items))
            if items[i] is not None:
                items[i] = r.pick([' ', '  ', '\t']) + items[i] + r.pick(
                    ['', ' ', '\n'])
    if r.chance(0.1):
        # blank (whitespace-only) examples: with strip they become empties
        # that were nevertheless supplied non-empty
        for _ in range(r.randint(1, 2)):
            items.insert(r.randrange(len(items) + 1),
                         r.pick([' ', '\t', '  ', '\n', ' \t ']))
    info = {'classes': classes, 'families': fams, 'mode': mode,
            'risky': sorted(set(classes) & set(RISKY))}
    return items, info
