"""
Seeded generator of hand-written constraint sets in the documented .tdda
format: every kind, precision dicts, null values, unknown kinds, '#comment'
keys, date bounds with fractional seconds, unicode, regexes with
backslashes and quotes.  Also "near-miss" constraint sets for a frame spec:
bounds on, just inside and just outside the data so that detection has
something to flag.
"""

import datetime
import math

REXES = [r'^[a-z]+$', r'^\d{2,4}$', r'^[A-Z][a-z]*\s\w+$', r"^it's$",
         r'^say "hi"$', r'^back\\slash$', r'^.*$', r'^[^\W\d_]+\d*$',
         r'^(alpha|beta|gamma)$', r'^café$', '^数据$', r'^\S+$',
         # hand-written prefix patterns: not anchored at the end
         r'^[a-z]+', r'^[A-Z]\d', r'[a-z]{2}', r'^(alpha|x)']
SIGNS = ['positive', 'non-negative', 'zero', 'non-positive', 'negative',
         'null']
TYPES = ['bool', 'int', 'real', 'date', 'string']


def gen_date_str(r):
    d = datetime.datetime(r.randint(1950, 2060), r.randint(1, 12),
                          r.randint(1, 28), r.randint(0, 23),
                          r.randint(0, 59), r.randint(0, 59))
    k = r.weighted([(3, 'date'), (3, 'dt'), (4, 'frac'), (1, 'slash')])
    if k == 'date':
        return d.strftime('%Y-%m-%d')
    if k == 'dt':
        return d.strftime('%Y-%m-%d %H:%M:%S') if r.chance(0.5) else \
            d.strftime('%Y-%m-%dT%H:%M:%S')
    if k == 'frac':
        return d.strftime('%Y-%m-%d %H:%M:%S') + '.%d' % r.randint(0, 999999)
    return d.strftime('%Y/%m/%d')


def bound(r, t):
    if t == 'date':
        return gen_date_str(r)
    if t == 'int':
        return r.pick([0, 1, -1, r.randint(-1000, 1000), 2 ** 53 + 1,
                       -2 ** 63])
    if t == 'real':
        return r.pick([0.0, 0.1, -2.5, 1e-7, 1234567.891, 1e300,
                       0.30000000000000004, 3.0, float(r.randint(-9, 9))])
    if t == 'bool':
        return r.pick([True, False])
    return r.pick(['a', 'zz', 'é'])


def maybe_precision(r, v):
    if r.chance(0.35):
        return {'value': v, 'precision': r.pick(['open', 'closed', 'fuzzy'])}
    return v


def gen_field(r, t=None):
    t = t or r.pick(TYPES)
    f = {}
    if r.chance(0.85):
        f['type'] = t if r.chance(0.85) else r.pick([['int', 'real'],
                                                     ['bool', 'int'], [t]])
    if t != 'string':
        if r.chance(0.6):
            f['min'] = maybe_precision(r, bound(r, t))
        if r.chance(0.6):
            f['max'] = maybe_precision(r, bound(r, t))
        if t in ('int', 'real') and r.chance(0.4):
            f['sign'] = r.pick(SIGNS)
    else:
        if r.chance(0.5):
            f['min_length'] = r.randint(0, 5)
        if r.chance(0.5):
            f['max_length'] = r.randint(0, 12)
        if r.chance(0.35):
            f['allowed_values'] = r.sample(
                ['alpha', 'beta', 'x', 'café', '数据', "it's", 'say "hi"',
                 'back\\slash', '', 'a,b', 'tab\there'], r.randint(1, 5))
        if r.chance(0.35):
            f['rex'] = r.sample(REXES, r.randint(1, 3))
    if r.chance(0.5):
        f['max_nulls'] = r.pick([0, 1, 0, 3])
    if r.chance(0.3):
        f['no_duplicates'] = True
    if r.chance(0.4) and len(f) > 1:
        # key order is immaterial in the documented format
        keys = list(f)
        r.shuffle(keys)
        f = {k: f[k] for k in keys}
    return f


def add_noise(r, f):
    """Unknown kinds, '#' keys and null-valued constraints (must be
    ignored / always satisfied).  Returns list of kinds added."""
    added = []
    for _ in range(r.randint(1, 3)):
        k = r.weighted([(3, 'null'), (2, 'unknown'), (2, 'comment')])
        if k == 'null':
            kind = r.pick(['min', 'max', 'min_length', 'max_length', 'sign',
                           'max_nulls', 'no_duplicates', 'allowed_values',
                           'rex', 'type'])
            if kind not in f:
                f[kind] = None
                added.append(kind)
        elif k == 'unknown':
            kind = r.pick(['checksum', 'mean', 'x-custom', 'is_sorted'])
            f[kind] = r.pick([1, 'x', [1, 2], {'value': 3}, None])
            added.append(kind)
        else:
            kind = r.pick(['#comment', '#', '#min'])
            f[kind] = r.pick(['a note', 3, None, ['x']])
            added.append(kind)
    return added


def gen_handwritten(r, frame_spec=None):
    """A constraint dict, partly aligned with the frame's columns."""
    fields = {}
    names = []
    if frame_spec:
        for c in frame_spec['columns']:
            if r.chance(0.8):
                names.append((c['name'], kind_to_type(c['kind'])))
    for _ in range(r.randint(0, 2)):
        names.append((r.pick(['zz_missing', 'naïve field', 'other',
                              'x"q', "o'k"]), None))
    for name, t in names:
        if name in fields:
            continue
        tt = t if (t and r.chance(0.8)) else None
        fields[name] = gen_field(r, tt)
        if not fields[name]:
            fields[name] = {'type': tt or 'int'}
    if not fields:
        fields['a'] = gen_field(r, 'int') or {'type': 'int'}
    cs = {'fields': fields}
    if r.chance(0.5):
        cs = {'creation_metadata': {
            'local_time': '2001-02-03T04:05:06',
            'utc_time': '2001-02-03T04:05:06+00:00',
            'creator': 'TDDA 0.0.1', 'host': 'oldhost', 'user': 'olduser',
            'n_records': 7, 'n_selected': 7}, 'fields': fields}
    return cs


def kind_to_type(kind):
    if kind in ('int', 'uint', 'Int64'):
        return 'int'
    if kind == 'float':
        return 'real'
    if kind in ('bool', 'objbool', 'boolean'):
        return 'bool'
    if kind in ('str', 'category', 'string_ext', 'str_pd3'):
        return 'string'
    return 'date'


def col_stats(c):
    vals = [v for v in c['values'] if v is not None]
    t = kind_to_type(c['kind'])
    if t == 'real':
        f = [float(v) for v in vals]
        vals = [v for v in f if not math.isnan(v)]
    return t, vals


def clamp_int(b):
    # bounds stay inside the int64 range: numpy raises OverflowError when a
    # column is compared with a Python int beyond it (detection) while plain
    # verification compares Python ints; out-of-range bounds are left out of
    # the workload (DESIGN 10.3)
    return max(-2 ** 63, min(2 ** 63 - 1, b))


def near_miss(r, frame_spec):
    """Constraints near the data's own statistics, with at least some
    violated (for detection)."""
    fields = {}
    for c in frame_spec['columns']:
        t, vals = col_stats(c)
        if c['kind'] in ('str_pd3', 'string_ext', 'dt_tz'):
            continue
        f = {}
        if r.chance(0.8):
            f['type'] = t if r.chance(0.8) else r.pick(TYPES)
        nn = len(vals)
        nnull = len(c['values']) - len([v for v in c['values']
                                        if v is not None])
        if t in ('int', 'real') and nn:
            fin = [v for v in vals if not (isinstance(v, float)
                                           and math.isinf(v))]
            if fin:
                srt = sorted(fin)
                lo, hi = srt[0], srt[-1]
                mid = srt[len(srt) // 2]
                if r.chance(0.7):
                    b = r.pick([lo, mid, hi, lo + 1, lo - 1,
                                lo * 1.005 if lo else 0.5])
                    if t == 'int':
                        b = clamp_int(int(b))
                    f['min'] = maybe_precision(r, b)
                if r.chance(0.7):
                    b = r.pick([hi, mid, lo, hi - 1, hi + 1,
                                hi * 0.995 if hi else -0.5])
                    if t == 'int':
                        b = clamp_int(int(b))
                    f['max'] = maybe_precision(r, b)
            if r.chance(0.5):
                f['sign'] = r.pick(SIGNS)
        elif t == 'date' and nn:
            srt = sorted(vals)
            cut = 26 if r.chance(0.5) else 19   # keep microseconds or not
            if r.chance(0.7):
                f['min'] = r.pick(srt)[:cut].replace('T', ' ')
            if r.chance(0.7):
                f['max'] = r.pick(srt)[:cut].replace('T', ' ')
        elif t == 'string' and nn:
            lens = sorted(len(v) for v in vals)
            if r.chance(0.6):
                f['min_length'] = r.pick([lens[0], lens[-1],
                                          lens[len(lens) // 2] + 1])
            if r.chance(0.6):
                f['max_length'] = r.pick([lens[-1], lens[0],
                                          max(0, lens[len(lens) // 2] - 1)])
            if r.chance(0.5):
                dv = sorted(set(vals))
                keep = [v for v in dv if r.chance(0.7)] or dv[:1]
                f['allowed_values'] = keep
            if r.chance(0.4):
                f['rex'] = r.sample(REXES, r.randint(1, 2))
        if r.chance(0.7):
            f['max_nulls'] = r.pick([0, max(0, nnull - 1), nnull])
        if r.chance(0.5) and t != 'real':
            f['no_duplicates'] = True
        if f:
            fields[c['name']] = f
    if r.chance(0.2):
        fields['zz_missing'] = {'type': 'int', 'min': 0}
    if not fields:
        fields['zz_missing'] = {'type': 'int'}
    return {'fields': fields}
