"""
Seeded text generator for reference-test workloads: lines built from token
classes over disjoint alphabets so that the documented meaning of
ignore-patterns / substrings is unambiguous (DESIGN 4.2), plus near-miss
mutations and option sets that interact with them.
"""

WORDS = ['alpha', 'beta', 'gamma', 'delta', 'total', 'rows', 'value', 'mean',
         'error', 'ok', 'run', 'file', 'user', 'host', 'count', 'sum']
UWORDS = ['café', 'naïve', 'Ångström', '数据', 'данные', 'über']
UPPER = ['ABC', 'XY', 'HEADER', 'Q', 'TOTALS']
PUNCT = [':', '=', '->', ',', ';', '|', '(', ')', '[', ']', '*', '+', '?',
         '\\', '"', "'", '$', '^', '{', '}']

# characters str.splitlines() treats as line ends but files read in text
# mode do not: line content for the comparison
SEPLIKE = ['\x0b', '\x0c', '\x1c', '\x1d', '\x1e', '\x85', '\u2028',
           '\u2029']

PATTERN_FAMILY = [r'\d{4}', r'\d+', r'[0-9]{4}-[0-9]{2}', r'v\d+\.\d+',
                  r'[A-Z]+', r'^#.*$', r'\d+$', r'^[A-Z]+', r'(\d+)',
                  'LITERAL']


def tok_digits(r):
    return r.weighted([(3, '%04d' % r.randint(0, 9999)),
                       (3, str(r.randint(0, 999))),
                       (1, '%02d' % r.randint(0, 99)),
                       (1, str(r.randint(10000, 99999999)))])


def tok_version(r):
    return 'v%d.%d' % (r.randint(0, 12), r.randint(0, 30))


def tok_ym(r):
    return '%04d-%02d' % (r.randint(1990, 2040), r.randint(1, 12))


def gen_line(r, unicode_ok=True):
    kind = r.weighted([(8, 'mixed'), (1, 'comment'), (1, 'empty'),
                       (1, 'upperlead')])
    if kind == 'empty':
        return ''
    if kind == 'comment':
        return '# ' + ' '.join(r.pick(WORDS) for _ in range(r.randint(1, 4))) \
            + (' ' + tok_digits(r) if r.chance(0.5) else '')
    toks = []
    if kind == 'upperlead':
        toks.append(r.pick(UPPER))
    # mostly short lines; one in ten is long, so that what follows an
    # ignorable part can itself be longer than any fixed small width
    for _ in range(r.weighted([(9, r.randint(1, 6)), (1, r.randint(8, 18))])):
        t = r.weighted([(5, 'w'), (3, 'd'), (1, 'v'), (1, 'ym'), (1, 'U'),
                        (1, 'p'), (1 if unicode_ok else 0, 'u')])
        toks.append({'w': lambda: r.pick(WORDS), 'd': lambda: tok_digits(r),
                     'v': lambda: tok_version(r), 'ym': lambda: tok_ym(r),
                     'U': lambda: r.pick(UPPER), 'p': lambda: r.pick(PUNCT),
                     'u': lambda: r.pick(UWORDS)}[t]())
    line = ' '.join(toks)
    if r.chance(0.04):
        p = r.randrange(len(line) + 1)
        line = line[:p] + r.pick(SEPLIKE) + line[p:]
    if r.chance(0.12):
        line = r.pick([' ', '  ', '\t']) + line
    if r.chance(0.12):
        line = line + r.pick([' ', '  ', '\t'])
    return line


def gen_lines(r, nmax=10):
    n = r.weighted([(1, 0), (2, 1), (6, r.randint(2, 6)),
                    (2, r.randint(5, nmax))])
    return [gen_line(r) for _ in range(n)]


def join_text(r, lines):
    """Lines -> text with a per-text newline convention."""
    nl = r.weighted([(8, '\n'), (1, '\r\n'), (0.5, '\r')])
    text = nl.join(lines)
    if lines and r.chance(0.75):
        text += nl
    return text


def mutate_lines(r, lines, k=None):
    """Returns (new_lines, list of mutation kinds applied)."""
    lines = list(lines)
    kinds = []
    k = k if k is not None else r.weighted([(5, 1), (3, 2), (1, 3)])
    for _ in range(k):
        m = r.weighted([(4, 'digits_same_width'), (3, 'digits_other_width'),
                        (3, 'word'), (2, 'drop_line'), (2, 'add_line'),
                        (2, 'swap_lines'), (2, 'trailing_space'),
                        (1, 'leading_space'), (1, 'case'), (1, 'version'),
                        (1, 'comment_text'), (1, 'one_char'),
                        (2, 'swap_and_change'), (1.5, 'space_and_change'),
                        (1.5, 'newline_to_sep'), (0.7, 'sep_to_sep'),
                        (1.5, 'space_digits_and_change'),
                        (1.2, 'blank_tail')])
        idxs = [i for i, l in enumerate(lines) if l]
        if m in ('digits_same_width', 'digits_other_width'):
            import re
            cands = [(i, mm) for i in idxs
                     for mm in re.finditer(r'\d+', lines[i])]
            if not cands:
                continue
            i, mm = r.pick(cands)
            old = mm.group(0)
            if m == 'digits_same_width':
                new = ''.join(r.pick('0123456789') for _ in old)
                if new == old:
                    new = old[:-1] + ('1' if old[-1] != '1' else '2')
            else:
                new = old + str(r.randint(0, 9)) if r.chance(0.5) or \
                    len(old) == 1 else old[:-1]
            lines[i] = lines[i][:mm.start()] + new + lines[i][mm.end():]
        elif m == 'word':
            if not idxs:
                continue
            i = r.pick(idxs)
            toks = lines[i].split(' ')
            j = r.randrange(len(toks))
            toks[j] = r.pick(WORDS + UWORDS)
            lines[i] = ' '.join(toks)
        elif m == 'drop_line':
            if not lines:
                continue
            del lines[r.randrange(len(lines))]
        elif m == 'add_line':
            lines.insert(r.randrange(len(lines) + 1), gen_line(r))
        elif m == 'swap_lines':
            if len(lines) < 2:
                continue
            i, j = r.sample(range(len(lines)), 2)
            lines[i], lines[j] = lines[j], lines[i]
        elif m == 'swap_and_change':
            # two lines swapped near the top and a real change further down
            if len(lines) < 3 or len(idxs) < 1:
                continue
            lines[0], lines[1] = lines[1], lines[0]
            i = r.pick([x for x in range(2, len(lines))])
            lines[i] = lines[i] + ' ' + r.pick(WORDS)
        elif m == 'space_and_change':
            # one line differs only in surrounding blanks, another for real
            if len(idxs) < 2:
                continue
            i, j = r.sample(idxs, 2)
            lines[i] = r.pick(['', ' ', '\t']) + lines[i] + r.pick(
                [' ', '  ', '\t'])
            lines[j] = lines[j] + ' ' + r.pick(WORDS)
        elif m == 'newline_to_sep':
            # two lines run together with a separator-like character where
            # the newline was (a flipped bit turns 0x0a into 0x0b)
            if len(lines) < 2:
                continue
            i = r.randrange(len(lines) - 1)
            lines[i:i + 2] = [lines[i] + r.pick(SEPLIKE) + lines[i + 1]]
        elif m == 'sep_to_sep':
            cands = [i for i in idxs if any(c in lines[i] for c in SEPLIKE)]
            if not cands:
                continue
            i = r.pick(cands)
            for c in SEPLIKE:
                if c in lines[i]:
                    lines[i] = lines[i].replace(
                        c, r.pick([x for x in SEPLIKE if x != c]), 1)
                    break
        elif m == 'space_digits_and_change':
            # three lines differ: one only in surrounding blanks, one only
            # in a number, one for real (strip + ignore-pattern + a genuine
            # difference in one comparison)
            import re
            dl = [i for i in idxs if re.search(r'\d', lines[i])]
            if len(idxs) < 3 or not dl:
                continue
            k = r.pick(dl)
            rest = [i for i in idxs if i != k]
            i, j = r.sample(rest, 2)
            mm = re.search(r'\d+', lines[k])
            old = mm.group(0)
            new = ''.join(r.pick('0123456789') for _ in old)
            if new == old:
                new = old[:-1] + ('1' if old[-1] != '1' else '2')
            lines[k] = lines[k][:mm.start()] + new + lines[k][mm.end():]
            lines[i] = r.pick(['', ' ', '\t']) + lines[i] + r.pick(
                [' ', '  ', '\t'])
            lines[j] = lines[j] + ' ' + r.pick(WORDS)
        elif m == 'blank_tail':
            # one more line at the end (or one fewer), made of blanks only
            if lines and lines[-1].strip() == '' and lines[-1] != '' \
                    and r.chance(0.5):
                del lines[-1]
            else:
                lines.append(r.pick([' ', '  ', '\t', ' \t']))
        elif m == 'trailing_space':
            if not idxs:
                continue
            i = r.pick(idxs)
            lines[i] = lines[i] + r.pick([' ', '\t', '  '])
        elif m == 'leading_space':
            if not idxs:
                continue
            i = r.pick(idxs)
            lines[i] = r.pick([' ', '\t']) + lines[i]
        elif m == 'case':
            if not idxs:
                continue
            i = r.pick(idxs)
            lines[i] = lines[i].upper() if r.chance(0.5) else lines[i].lower()
        elif m == 'version':
            import re
            cands = [(i, mm) for i in idxs
                     for mm in re.finditer(r'v\d+\.\d+', lines[i])]
            if not cands:
                continue
            i, mm = r.pick(cands)
            lines[i] = lines[i][:mm.start()] + tok_version(r) \
                + lines[i][mm.end():]
        elif m == 'comment_text':
            cands = [i for i in idxs if lines[i].startswith('#')]
            if not cands:
                continue
            i = r.pick(cands)
            lines[i] = '# ' + r.pick(WORDS) + ' ' + tok_digits(r)
        elif m == 'one_char':
            if not idxs:
                continue
            i = r.pick(idxs)
            p = r.randrange(len(lines[i]))
            c = lines[i][p]
            new = r.pick('xyz019 #') if c not in 'xyz019 #' else 'Q'
            lines[i] = lines[i][:p] + new + lines[i][p + 1:]
        kinds.append(m)
    return lines, kinds


def gen_options(r, ref_lines, act_lines):
    """Option subset biased to interact with the content."""
    o = {}
    if r.chance(0.25):
        o['lstrip'] = True
    if r.chance(0.3):
        o['rstrip'] = True
    all_toks = [t for l in ref_lines + act_lines for t in l.split(' ')
                if t and not any(c in t for c in '\r\n')]
    if r.chance(0.25) and all_toks:
        o['ignore_substrings'] = [r.pick(all_toks)
                                  for _ in range(r.randint(1, 2))]
    if r.chance(0.4):
        pats = []
        for _ in range(r.weighted([(3, 1), (1, 2)])):
            p = r.pick(PATTERN_FAMILY)
            if p == 'LITERAL':
                import re
                p = re.escape(r.pick(all_toks)) if all_toks else 'zzz'
            if p not in pats:
                pats.append(p)
        o['ignore_patterns'] = pats
    if r.chance(0.25) and all_toks:
        o['remove_lines'] = [r.pick(all_toks)
                             for _ in range(r.randint(1, 2))]
    if r.chance(0.12):
        o['preprocess'] = r.pick(['drop_first', 'upper', 'sort',
                                  'strip_comments'])
    if r.chance(0.3):
        o['max_permutation_cases'] = r.randint(1, 3)
    return o
